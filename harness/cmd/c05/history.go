// C05 histories: ONE verifier object, many calls.
//
// Every other stream of this harness asks one question of a fresh object (or of a function) and
// moves on.  The property says the verdict is a function of (key, declared algorithms, signed
// bytes, signature value); an implementation that keeps anything between calls - a memo of
// verified SCTs keyed by less than the whole signed input, a negative cache, a "last good"
// shortcut, state shared between two objects - satisfies every single-call case and violates the
// property on the second call.  Here each stateful thing the property's files offer
//
//	*ctutil.LogInfo            (ctutil.NewLogInfo from a log-list entry, or a literal around a verifier):
//	                           VerifySCTSignature, Verifier.VerifySTHSignature / VerifySignature,
//	                           ctutil.VerifySCTWithVerifier(li.Verifier, ...), SetSTH / LastSTH /
//	                           VerifyInclusionAt / VerifyInclusionLatest in between
//	*ct.SignatureVerifier      (ct.NewSignatureVerifier, or a literal): VerifySignature,
//	                           VerifySCTSignature, VerifySTHSignature, ctutil.VerifySCTWithVerifier
//	the package itself         (tls.VerifySignature, a SignatureVerifier literal per call,
//	                           ctutil.VerifySCT, loglist3.NewFromSignedJSON - whatever they might keep
//	                           in package-level variables)
//
// is built ONCE per session and driven through a script: a valid item, then the same signature
// with every signed field changed in turn (and the key, and the algorithm identifiers), replays,
// repeated failures followed by the success, two valid items interleaved and cross-paired (the
// SCT of one with the leaf of the other), alternations, a random tail; two objects of the same
// kind with different keys are interleaved in one session.  EVERY call is held to the stateless
// oracle of this file's siblings (rfcSCTInput / rfcSTHInput written from RFC 6962, expectVerify
// over crypto/rsa, crypto/ecdsa, crypto/dsa): verifies iff the signature is valid for exactly
// these signed bytes under this object's key.  One Coq case per object: the model of the object
// (SigModel.run_history) is run over the whole history with ONE instantiation of the primitives.
package main

import (
	"bytes"
	"context"
	"crypto"
	"crypto/sha256"
	stdx509 "crypto/x509"
	"encoding/json"
	"errors"
	"fmt"
	"math/big"
	mrand "math/rand"
	"sort"
	"strings"

	ct "github.com/google/certificate-transparency-go"
	"github.com/google/certificate-transparency-go/ctutil"
	"github.com/google/certificate-transparency-go/loglist3"
	"github.com/google/certificate-transparency-go/tls"
	"github.com/google/certificate-transparency-go/x509"
	"github.com/google/certificate-transparency-go/x509/pkix"

	"verif/harness/lib"
	"verif/harness/pki"
)

// ---------------------------------------------------------------- items

// hItem: one call's arguments.
type hItem struct {
	what string // "<item>:<variant>", deterministic
	kind string // sct sth blob util json touch
	s    sctObj
	en   entryObj
	t    sthObj
	// blob / json
	data []byte
	h, a int
	sig  []byte
	// util: the chain handed to ctutil (en is the leaf it stands for)
	chain []*x509.Certificate
	// touch
	touch string
	// what the generator built it to be ("" = whatever the primitive says)
	mustBe string
}

func (it hItem) sigBytes() []byte {
	switch it.kind {
	case "sct", "util":
		return it.s.sig
	case "sth":
		return it.t.sig
	}
	return it.sig
}

// variants of a valid item: the item first, then its single-field changes (same signature value
// unless the variant is about the signature)
type hValid struct {
	item hItem
	muts []hItem
}

func named1(it hItem, what, mustBe string) hItem {
	it.what = strings.SplitN(it.what, ":", 2)[0] + ":" + what
	it.mustBe = mustBe
	return it
}

// sctVariants: every signed field of (SCT, entry) changed in turn under the same signature; the
// declared algorithms; the signature of another key over the same bytes; fields that are not signed.
func sctVariants(rnd *mrand.Rand, v hItem, altSig []byte) []hItem {
	var out []hItem
	add := func(what, mustBe string, f func(it *hItem)) {
		it := named1(v, what, mustBe)
		f(&it)
		out = append(out, it)
	}
	add("signed-field:timestamp-bit", "err", func(it *hItem) { it.s.ts ^= 1 << uint(rnd.Intn(64)); it.en.leafTS = it.s.ts })
	add("signed-field:timestamp+1", "err", func(it *hItem) { it.s.ts++; it.en.leafTS = it.s.ts })
	add("signed-field:extensions-appended", "err", func(it *hItem) { it.s.ext = cat(it.s.ext, []byte{0}) })
	if len(v.s.ext) > 0 {
		add("signed-field:extensions-bit", "err", func(it *hItem) { it.s.ext = flipBit(rnd, it.s.ext) })
		add("signed-field:extensions-dropped", "err", func(it *hItem) { it.s.ext = nil })
	}
	add("signed-field:version", "err", func(it *hItem) { it.s.version = 1 })
	if v.kind == "sct" { // (a chain item's leaf is what the chain says; its leaf variants are other chains)
		if v.en.shape == "x509" {
			add("signed-field:cert-bit", "err", func(it *hItem) { it.en.cert = flipBit(rnd, it.en.cert) })
			add("signed-field:cert-truncated", "err", func(it *hItem) { it.en.cert = it.en.cert[:len(it.en.cert)-1] })
			add("signed-field:cert-extended", "err", func(it *hItem) { it.en.cert = cat(it.en.cert, []byte{0}) })
			add("signed-field:cert-other", "err", func(it *hItem) { it.en.cert = randBytes(rnd, len(it.en.cert)) })
			add("signed-field:entry-type", "err", func(it *hItem) { it.en.shape, it.en.etype, it.en.tbs = "precert", 1, it.en.cert })
		} else {
			add("signed-field:tbs-bit", "err", func(it *hItem) { it.en.tbs = flipBit(rnd, it.en.tbs) })
			add("signed-field:tbs-truncated", "err", func(it *hItem) { it.en.tbs = it.en.tbs[:len(it.en.tbs)-1] })
			add("signed-field:tbs-other", "err", func(it *hItem) { it.en.tbs = randBytes(rnd, len(it.en.tbs)) })
			add("signed-field:issuer-key-hash-bit", "err", func(it *hItem) { it.en.ikh[rnd.Intn(32)] ^= 1 << uint(rnd.Intn(8)) })
			add("signed-field:issuer-key-hash-other", "err", func(it *hItem) { rnd.Read(it.en.ikh[:]) })
			add("signed-field:entry-type", "err", func(it *hItem) {
				it.en.shape, it.en.etype, it.en.cert = "x509", 0, cat(it.en.ikh[:], it.en.tbs)
			})
		}
		add("signed-field:entry-type-unknown", "err", func(it *hItem) { it.en.shape, it.en.etype, it.en.cert = "other", 2, []byte{1} })
		add("unsigned-field:leaf-extensions-version-type-index", "ok", func(it *hItem) {
			it.en.leafExt, it.en.leafVer, it.en.leafTy, it.en.index = []byte{1, 2, 3}, 3, 7, -1
		})
	}
	add("unsigned-field:log-id", "ok", func(it *hItem) { it.s.logID[rnd.Intn(32)] ^= 0x40 })
	add("signature:hash-code", "err", func(it *hItem) { it.s.h = 1 + (it.s.h % 6) })
	add("signature:hash-code-unknown", "err", func(it *hItem) { it.s.h = []int{0, 7, 255}[rnd.Intn(3)] })
	add("signature:sigalg", "err", func(it *hItem) { it.s.a = 1 + (it.s.a % 3) })
	add("signature:sigalg-unknown", "err", func(it *hItem) { it.s.a = []int{0, 4, 255}[rnd.Intn(3)] })
	add("signature:bitflip", "", func(it *hItem) { it.s.sig = flipBit(rnd, it.s.sig) })
	add("key:signed-by-other-key", "err", func(it *hItem) { it.s.sig = altSig })
	return out
}

func sthVariants(rnd *mrand.Rand, v hItem, altSig []byte) []hItem {
	var out []hItem
	add := func(what, mustBe string, f func(it *hItem)) {
		it := named1(v, what, mustBe)
		f(&it)
		out = append(out, it)
	}
	add("signed-field:tree-size+1", "err", func(it *hItem) { it.t.size++ })
	add("signed-field:tree-size-bit", "err", func(it *hItem) { it.t.size ^= 1 << uint(rnd.Intn(64)) })
	add("signed-field:timestamp-bit", "err", func(it *hItem) { it.t.ts ^= 1 << uint(rnd.Intn(64)) })
	add("signed-field:size-timestamp-swapped", "err", func(it *hItem) { it.t.size, it.t.ts = it.t.ts, it.t.size })
	add("signed-field:root-bit", "err", func(it *hItem) { it.t.root[rnd.Intn(32)] ^= 1 << uint(rnd.Intn(8)) })
	add("signed-field:version", "err", func(it *hItem) { it.t.version = 1 })
	add("unsigned-field:log-id", "ok", func(it *hItem) { it.t.logID[3] ^= 0xff })
	add("signature:hash-code", "err", func(it *hItem) { it.t.h = 1 + (it.t.h % 6) })
	add("signature:sigalg", "err", func(it *hItem) { it.t.a = 1 + (it.t.a % 3) })
	add("signature:bitflip", "", func(it *hItem) { it.t.sig = flipBit(rnd, it.t.sig) })
	add("key:signed-by-other-key", "err", func(it *hItem) { it.t.sig = altSig })
	return out
}

func blobVariants(rnd *mrand.Rand, v hItem, altSig []byte) []hItem {
	var out []hItem
	add := func(what, mustBe string, f func(it *hItem)) {
		it := named1(v, what, mustBe)
		f(&it)
		out = append(out, it)
	}
	add("signed-bytes:bitflip", "err", func(it *hItem) { it.data = flipBit(rnd, it.data) })
	add("signed-bytes:truncated", "err", func(it *hItem) { it.data = it.data[:len(it.data)-1] })
	add("signed-bytes:extended", "err", func(it *hItem) { it.data = cat(it.data, []byte{0}) })
	add("signed-bytes:other", "err", func(it *hItem) { it.data = randBytes(rnd, len(it.data)) })
	if v.kind == "blob" { // (NewFromSignedJSON declares the algorithms itself)
		add("signature:hash-code", "err", func(it *hItem) { it.h = 1 + (it.h % 6) })
		add("signature:hash-code-unknown", "err", func(it *hItem) { it.h = []int{0, 7, 255}[rnd.Intn(3)] })
		add("signature:sigalg", "err", func(it *hItem) { it.a = 1 + (it.a % 3) })
	}
	add("signature:bitflip", "", func(it *hItem) { it.sig = flipBit(rnd, it.sig) })
	add("key:signed-by-other-key", "err", func(it *hItem) { it.sig = altSig })
	return out
}

// ---------------------------------------------------------------- material for one key

type hMaterial struct {
	k, alt *keyInfo
	// valid under k ... and the same objects signed by alt
	valids, altValids []hValid
}

var histChains struct {
	made              bool
	leaf1, leaf2, pre []*x509.Certificate
}

func chains() {
	if histChains.made {
		return
	}
	root := pki.Issue(pki.Opts{CN: "c05 history root", IsCA: true}, nil)
	l1 := pki.Issue(pki.Opts{CN: "c05 history leaf one", DNSNames: []string{"one.c05.example"}}, root)
	l2 := pki.Issue(pki.Opts{CN: "c05 history leaf two", DNSNames: []string{"two.c05.example"}}, root)
	pre := pki.Issue(pki.Opts{CN: "c05 history precert", ExtraExt: []pkix.Extension{pki.PoisonExt()}}, root)
	histChains.leaf1 = []*x509.Certificate{l1.Cert, root.Cert}
	histChains.leaf2 = []*x509.Certificate{l2.Cert, root.Cert}
	histChains.pre = []*x509.Certificate{pre.Cert, root.Cert}
	histChains.made = true
}

// entryOfChain: the leaf a chain stands for.  x509: the certificate's own DER, by hand; precert:
// the TBS / issuer key hash the repository derives (C03 / C04 cover that derivation).
func entryOfChain(chain []*x509.Certificate, ts uint64) entryObj {
	if !chain[0].IsPrecertificate() {
		return entryObj{shape: "x509", leafTS: ts, cert: chain[0].Raw}
	}
	ml, err := ct.MerkleTreeLeafFromChain(chain, ct.PrecertLogEntryType, ts)
	must(err)
	return entryObj{shape: "precert", etype: 1, leafTS: ts,
		ikh: ml.TimestampedEntry.PrecertEntry.IssuerKeyHash, tbs: ml.TimestampedEntry.PrecertEntry.TBSCertificate}
}

func material(rnd *mrand.Rand, k, alt *keyInfo, withJSON bool) *hMaterial {
	chains()
	m := &hMaterial{k: k, alt: alt}
	a, aAlt := sigAlgOf[k.kind], sigAlgOf[alt.kind]
	hashOf := func() int {
		if rnd.Intn(3) == 0 {
			return 1 + rnd.Intn(6)
		}
		return 4
	}
	both := func(name string, build func(signer *keyInfo, alg int) hItem, variants func(v hItem, altSig []byte) []hItem) {
		v, w := build(k, a), build(alt, aAlt)
		v.what, w.what = name+":valid", name+":valid"
		v.mustBe, w.mustBe = "ok", "ok"
		m.valids = append(m.valids, hValid{v, variants(v, w.sigBytes())})
		// on the other object the roles are swapped; only the cross-key variant is kept there
		mw := named1(w, "key:signed-by-other-key", "err")
		switch mw.kind {
		case "sct", "util":
			mw.s.sig, mw.s.a = v.s.sig, v.s.a
		case "sth":
			mw.t.sig, mw.t.a = v.t.sig, v.t.a
		default:
			mw.sig, mw.a = v.sig, v.a
		}
		m.altValids = append(m.altValids, hValid{w, []hItem{mw}})
	}
	// two SCTs over x509 entries, one over a precert entry
	for _, name := range []string{"sctA", "sctB", "sctP"} {
		s := sctObj{version: 0, ts: 1500000000000 + uint64(rnd.Intn(1000000))*1000 + 1, h: hashOf()}
		if rnd.Intn(2) == 0 {
			s.ext = randBytes(rnd, 1+rnd.Intn(5))
		}
		rnd.Read(s.logID[:])
		en := entryObj{shape: "x509", leafTS: s.ts, cert: randBytes(rnd, 12+rnd.Intn(20)), index: int64(rnd.Intn(1000))}
		if name == "sctP" {
			en = entryObj{shape: "precert", etype: 1, leafTS: s.ts, tbs: randBytes(rnd, 10+rnd.Intn(20)), index: int64(rnd.Intn(1000))}
			rnd.Read(en.ikh[:])
		}
		both(name, func(signer *keyInfo, alg int) hItem {
			s := s
			s.a = alg
			s.sig, _, _ = sign(signer, s.h, rfcSCTInput(s, en), false)
			return hItem{kind: "sct", s: s, en: en}
		}, func(v hItem, altSig []byte) []hItem { return sctVariants(rnd, v, altSig) })
	}
	// SCTs for real chains (through ctutil)
	for _, c := range []struct {
		name  string
		chain []*x509.Certificate
	}{{"chain1", histChains.leaf1}, {"chain2", histChains.leaf2}, {"chainP", histChains.pre}} {
		s := sctObj{version: 0, ts: 1700000000000 + uint64(rnd.Intn(1000000)), h: 4}
		rnd.Read(s.logID[:])
		en := entryOfChain(c.chain, s.ts)
		both(c.name, func(signer *keyInfo, alg int) hItem {
			s := s
			s.a = alg
			s.sig, _, _ = sign(signer, s.h, rfcSCTInput(s, en), false)
			return hItem{kind: "util", s: s, en: en, chain: c.chain}
		}, func(v hItem, altSig []byte) []hItem {
			out := sctVariants(rnd, v, altSig)
			for i := range out { // the leaf follows the SCT's timestamp (createLeaf uses sct.Timestamp)
				out[i].en.leafTS = out[i].s.ts
			}
			for _, o := range []struct {
				name  string
				chain []*x509.Certificate
			}{{"chain1", histChains.leaf1}, {"chain2", histChains.leaf2}, {"chainP", histChains.pre}} {
				if o.name != c.name {
					it := named1(v, "signed-field:leaf-of-"+o.name, "err")
					it.chain, it.en = o.chain, entryOfChain(o.chain, v.s.ts)
					out = append(out, it)
				}
			}
			return out
		})
	}
	for _, name := range []string{"sthA", "sthB"} {
		t := sthObj{version: 0, size: uint64(rnd.Int63n(1 << 40)), ts: 1600000000000 + uint64(rnd.Intn(1000000)), h: hashOf()}
		rnd.Read(t.root[:])
		rnd.Read(t.logID[:])
		both(name, func(signer *keyInfo, alg int) hItem {
			t := t
			t.a = alg
			t.sig, _, _ = sign(signer, t.h, rfcSTHInput(t), false)
			return hItem{kind: "sth", t: t}
		}, func(v hItem, altSig []byte) []hItem { return sthVariants(rnd, v, altSig) })
	}
	for _, name := range []string{"blobA", "blobB"} {
		data := randBytes(rnd, 8+rnd.Intn(40))
		h := hashOf()
		both(name, func(signer *keyInfo, alg int) hItem {
			sig, _, _ := sign(signer, h, data, false)
			return hItem{kind: "blob", data: data, h: h, a: alg, sig: sig}
		}, func(v hItem, altSig []byte) []hItem { return blobVariants(rnd, v, altSig) })
	}
	if withJSON {
		for _, d := range []named{{"listA", []byte(sampleList)}, {"listB", []byte(strings.Replace(sampleList, `"Op"`, `"Other operator"`, 1))}} {
			d := d
			both(d.name, func(signer *keyInfo, alg int) hItem {
				sig, _, _ := sign(signer, 4, d.b, false)
				return hItem{kind: "json", data: d.b, h: 4, a: alg, sig: sig}
			}, func(v hItem, altSig []byte) []hItem {
				out := blobVariants(rnd, v, altSig)
				sha1sig, _, _ := sign(k, 2, v.data, false)
				it := named1(v, "signature:over-sha1", "err")
				it.sig = sha1sig
				out = append(out, it)
				// correctly signed bytes that are not a log list: refused, and not remembered as good
				bad := []byte(`{"operators": [`)
				it = named1(v, "signed:not-json", "err")
				it.data = bad
				it.sig, _, _ = sign(k, 4, bad, false)
				return append(out, it)
			})
		}
	}
	return m
}

// cross-pairings of two valid items of the same kind: the signature (for SCTs: the whole SCT) of
// one with the signed content of the other
func crossPair(x, y hItem) []hItem {
	var out []hItem
	switch {
	case x.kind == "sct" && y.kind == "sct":
		it := named1(x, "cross:sct-with-leaf-of-"+strings.SplitN(y.what, ":", 2)[0], "err")
		it.en = y.en
		it.en.leafTS = x.s.ts
		out = append(out, it)
		it = named1(x, "cross:signature-of-"+strings.SplitN(y.what, ":", 2)[0], "err")
		it.s.sig, it.s.h = y.s.sig, y.s.h
		out = append(out, it)
	case x.kind == "util" && y.kind == "util":
		it := named1(x, "cross:sct-with-chain-of-"+strings.SplitN(y.what, ":", 2)[0], "err")
		it.chain, it.en = y.chain, entryOfChain(y.chain, x.s.ts)
		out = append(out, it)
	case x.kind == "sth" && y.kind == "sth":
		it := named1(x, "cross:signature-of-"+strings.SplitN(y.what, ":", 2)[0], "err")
		it.t.sig, it.t.h = y.t.sig, y.t.h
		out = append(out, it)
	case (x.kind == "blob" && y.kind == "blob") || (x.kind == "json" && y.kind == "json"):
		it := named1(x, "cross:signature-of-"+strings.SplitN(y.what, ":", 2)[0], "err")
		it.sig, it.h = y.sig, y.h
		out = append(out, it)
	}
	return out
}

// script: the order of calls on one object
func script(rnd *mrand.Rand, valids []hValid, full bool, tail int) []hItem {
	var sc []hItem
	thorough := lib.Tier() == "thorough"
	rounds := 1
	if full && thorough {
		rounds = 3
	}
	// (1) the valid item; every variant under the same signature; the valid item again
	for _, v := range valids {
		sc = append(sc, v.item)
		ms := v.muts
		if !full { // the second object of a session: a sample
			ms = nil
			for _, m := range v.muts {
				if rnd.Intn(4) == 0 || strings.HasPrefix(strings.SplitN(m.what, ":", 2)[1], "key:") {
					ms = append(ms, m)
				}
			}
		}
		sc = append(sc, ms...)
		sc = append(sc, v.item)
	}
	// (2) failures first, repeated, then the success, the failure again, the success again
	for _, v := range valids {
		for n := 0; n < rounds; n++ {
			m := v.muts[rnd.Intn(len(v.muts))]
			sc = append(sc, m, m, m, v.item, m, v.item)
		}
	}
	// (3) two valid items of the same kind interleaved and cross-paired, both orders
	for i, x := range valids {
		for j, y := range valids {
			if i == j || x.item.kind != y.item.kind || (!thorough && i > j) {
				continue
			}
			cp := crossPair(x.item, y.item)
			if len(cp) == 0 {
				continue
			}
			sc = append(sc, x.item, y.item)
			sc = append(sc, cp...)
			sc = append(sc, y.item, x.item)
			sc = append(sc, cp...)
		}
	}
	// (4) alternation: valid, variant, valid, next variant ...
	if full {
		for _, v := range valids {
			for _, m := range v.muts {
				if thorough || rnd.Intn(4) == 0 {
					sc = append(sc, v.item, m)
				}
			}
		}
	}
	// (5) a random tail over everything
	var all []hItem
	for _, v := range valids {
		all = append(all, v.item, v.item)
		all = append(all, v.muts...)
	}
	for i := 0; i < tail; i++ {
		sc = append(sc, all[rnd.Intn(len(all))])
	}
	return sc
}

// ---------------------------------------------------------------- objects

type hStep struct {
	order    int // position in the session (calls of all its objects, in the order they were made)
	it       hItem
	api      string
	got      string
	emsg     string
	want     string
	mustBe   string                    // what the generator built the call to be, on this object ("" = whatever the primitive says)
	op       func(in *interner) string // the Coq vop, byte strings named through the interner
	orc      *hOracle                  // nil: nothing measured (a touch)
	detail   map[string]interface{}
	compared bool
}

// interner: byte strings that occur again and again in a history (the signature, the certificate,
// the log id ...) are bound once with let and referred to by name; Coq's front end is linear in the
// size of the literals it reads, and a history repeats them hundreds of times.
type interner struct {
	names map[string]string
	order [][]byte
	defs  []string
}

// wordBytes: a byte string as seven-octet primitive integers and a short tail (SigCase.wb)
func wordBytes(b []byte) string {
	if len(b) < 7 {
		return lib.Hex(b)
	}
	var ws []string
	i := 0
	for ; i+7 <= len(b); i += 7 {
		ws = append(ws, fmt.Sprintf("0x%x%%uint63", b[i:i+7]))
	}
	return fmt.Sprintf("(wb [%s] %s)", strings.Join(ws, "; "), lib.Hex(b[i:]))
}

func (in *interner) bind(prefix, key, term string) string {
	if n, ok := in.names[key]; ok {
		return n
	}
	n := fmt.Sprintf("%s%d", prefix, len(in.defs))
	in.names[key] = n
	in.defs = append(in.defs, fmt.Sprintf("let %s := %s in ", n, term))
	return n
}

func (in *interner) bs(b []byte) string {
	if len(b) < 7 {
		return lib.Hex(b)
	}
	if _, ok := in.names["b:"+string(b)]; !ok {
		in.order = append(in.order, b)
	}
	return in.bind("b", "b:"+string(b), wordBytes(b))
}

// composed: a byte string that contains an already bound one (the signed bytes contain the
// certificate) is written around it
func (in *interner) composed(b []byte) string {
	if _, ok := in.names["b:"+string(b)]; ok {
		return in.bs(b)
	}
	var best []byte
	for _, c := range in.order {
		if len(c) >= 16 && len(c) > len(best) && len(c) < len(b) && bytes.Contains(b, c) {
			best = c
		}
	}
	if best == nil {
		return in.bs(b)
	}
	i := bytes.Index(b, best)
	return in.bind("b", "b:"+string(b), fmt.Sprintf("(%s ++ %s ++ %s)", wordBytes(b[:i]), in.bs(best), wordBytes(b[i+len(best):])))
}

func (in *interner) dsig(h, a int, sig []byte) string {
	return fmt.Sprintf("(Build_dsig %d %d %s)", h, a, in.bs(sig))
}

func (in *interner) sct(s sctObj) string {
	return fmt.Sprintf("(Build_sct %d %s %d %s %s)", s.version, in.bs(s.logID[:]), s.ts, in.bs(s.ext), in.dsig(s.h, s.a, s.sig))
}

func (in *interner) sth(s sthObj) string {
	return fmt.Sprintf("(Build_sth %d %d %d %s %s)", s.version, s.size, s.ts, in.bs(s.root[:]), in.dsig(s.h, s.a, s.sig))
}

func (in *interner) entry(en entryObj) string {
	switch en.shape {
	case "x509":
		return fmt.Sprintf("(TX509 (Some %s))", in.bs(en.cert))
	case "precert":
		return fmt.Sprintf("(TPrecert (Some (%s, %s)))", in.bs(en.ikh[:]), in.bs(en.tbs))
	}
	return en.coq()
}

// hOracle: what the standard library says about ONE call's (key, declared hash, signed bytes,
// signature value) - the digest under the declared hash function and the primitive's verdict on it
// (the same measurements as buildOracle, kept as values so that they can be written compactly)
type hOracle struct {
	msg    []byte
	ht     crypto.Hash
	dg     []byte
	isRSA  bool
	rsaOK  bool
	haveRS bool
	r, s   *big.Int
	rsOK   bool
	json   bool
	note   map[string]interface{}
}

func measure(k *keyInfo, msg, sig []byte, h int) *hOracle {
	o := &hOracle{msg: msg, note: map[string]interface{}{}}
	hh, ok := hashByCode[h]
	if !ok {
		return o
	}
	o.ht, o.dg = hh, digest(hh, msg)
	switch k.kind {
	case "rsa":
		o.isRSA = true
		o.rsaOK = primRSA(k, hh, o.dg, sig)
		o.note[fmt.Sprintf("rsa.VerifyPKCS1v15[%v]", hh)] = o.rsaOK
	case "ecdsa", "dsa":
		o.r, o.s, _, o.haveRS = refDER(sig)
		if o.haveRS {
			o.rsOK = primRS(k, o.dg, o.r, o.s)
			o.note[fmt.Sprintf("%s.Verify[%v]", k.kind, hh)] = o.rsOK
			o.note["r"], o.note["s"] = o.r.String(), o.s.String()
		}
	}
	return o
}

// accepted: a primitive said yes (only such tables are written down: what no table lists is a refusal)
func (o *hOracle) accepted() bool { return o.rsaOK || o.rsOK }

func (in *interner) oracle(o *hOracle) string {
	zOf := func(v *big.Int) string {
		if v.Sign() < 0 {
			return lib.ZBig(v)
		}
		return "(zb " + in.bs(v.Bytes()) + ")"
	}
	var rsa []string
	rs := "None"
	if o.isRSA {
		rsa = []string{lib.Pair(lib.Z(int64(o.ht)), lib.Bool(o.rsaOK))}
	}
	if o.haveRS {
		rs = lib.Some(lib.Pair(zOf(o.r), zOf(o.s), lib.List([]string{lib.Pair(lib.Z(int64(o.ht)), lib.Bool(o.rsOK))})))
	}
	term := fmt.Sprintf("{| o_msg := Some %s; o_digests := [%s]; o_rsa := %s; o_rs := %s; o_json := %s |}",
		in.composed(o.msg), lib.Pair(lib.Z(int64(o.ht)), in.bs(o.dg)), lib.List(rsa), rs, lib.Bool(o.json))
	return in.bind("o", "o:"+term, term)
}

type hObject struct {
	kind  string // loginfo verifier package
	built string // how
	k     *keyInfo
	li    *ctutil.LogInfo
	sv    *ct.SignatureVerifier
	steps []*hStep
}

// a log front end for LogInfo's inclusion helpers: a one-leaf tree whose root is the leaf hash
type oneLeafLog struct {
	root  [32]byte
	calls int
}

func (l *oneLeafLog) BaseURI() string { return "https://ct.example/history/" }
func (l *oneLeafLog) GetSTH(context.Context) (*ct.SignedTreeHead, error) {
	l.calls++
	return &ct.SignedTreeHead{TreeSize: 1, Timestamp: 1, SHA256RootHash: l.root}, nil
}
func (l *oneLeafLog) GetSTHConsistency(context.Context, uint64, uint64) ([][]byte, error) {
	return nil, errors.New("not offered")
}
func (l *oneLeafLog) GetProofByHash(context.Context, []byte, uint64) (*ct.GetProofByHashResponse, error) {
	l.calls++
	return &ct.GetProofByHashResponse{LeafIndex: 0, AuditPath: nil}, nil
}

// RFC 6962 s3.4 MerkleTreeLeaf and its leaf hash, by hand
func rfcLeafHash(en entryObj, ts uint64) [32]byte {
	b := cat([]byte{0x00, 0, 0}, u64(ts))
	if en.shape == "precert" {
		b = cat(b, u16(1), en.ikh[:], u24(len(en.tbs)), en.tbs)
	} else {
		b = cat(b, u16(0), u24(len(en.cert)), en.cert)
	}
	return sha256.Sum256(cat(b, u16(0)))
}

func newObject(kind string, k *keyInfo, preferConstructor bool) *hObject {
	o := &hObject{kind: kind, k: k}
	switch kind {
	case "package":
		o.built = "package-level functions with the key as argument"
	case "verifier":
		if preferConstructor {
			ct.AllowVerificationWithNonCompliantKeys = true
			sv, err := ct.NewSignatureVerifier(k.pub)
			ct.AllowVerificationWithNonCompliantKeys = false
			if err == nil {
				o.sv, o.built = sv, "ct.NewSignatureVerifier"
				break
			}
		}
		o.sv, o.built = &ct.SignatureVerifier{PubKey: k.pub}, "&ct.SignatureVerifier{PubKey}"
	case "loginfo":
		if preferConstructor {
			if der, err := stdx509.MarshalPKIXPublicKey(k.pub); err == nil {
				ct.AllowVerificationWithNonCompliantKeys = true
				li, err := ctutil.NewLogInfo(&loglist3.Log{Description: "history log " + k.name, Key: der, URL: "ct.example/history/", MMD: 86400}, nil)
				ct.AllowVerificationWithNonCompliantKeys = false
				if err == nil && li != nil && li.Verifier != nil {
					o.li, o.built = li, "ctutil.NewLogInfo(log list entry)"
				}
			}
		}
		if o.li == nil {
			o.li, o.built = &ctutil.LogInfo{Description: "history log " + k.name, Verifier: &ct.SignatureVerifier{PubKey: k.pub}}, "&ctutil.LogInfo{Verifier: &ct.SignatureVerifier{PubKey}}"
		}
		o.sv = o.li.Verifier
	}
	return o
}

// call makes one call on the object and records it with the stateless expectation
func (o *hObject) call(order int, it hItem) {
	st := &hStep{order: order, it: it, compared: true, mustBe: it.mustBe}
	k := o.k
	var msg []byte
	var orc *hOracle
	want := "err"
	switch it.kind {
	case "sct", "util":
		msg = rfcSCTInput(it.s, it.en)
		orc = measure(k, msg, it.s.sig, it.s.h)
		if msg != nil {
			want = expectVerify(k, it.s.h, it.s.a, msg, it.s.sig)
		}
		g := it.s.toGo()
		st.detail = map[string]interface{}{"version": it.s.version, "timestamp": it.s.ts, "ext": hx(it.s.ext), "hash": it.s.h, "sigalg": it.s.a, "sig": hx(it.s.sig),
			"shape": it.en.shape, "cert": hx(it.en.cert), "tbs": hx(it.en.tbs), "issuer_key_hash": hx(it.en.ikh[:]), "signed_bytes": hx(msg)}
		st.op = func(in *interner) string { return fmt.Sprintf("OpSct %s %s", in.sct(it.s), in.entry(it.en)) }
		switch {
		case it.kind == "util" && o.kind == "package":
			st.api = "ctutil.VerifySCT(key, chain, sct, false)"
			st.op = func(in *interner) string { return fmt.Sprintf("OpUtil %s %s", in.sct(it.s), in.entry(it.en)) }
			if !((k.kind == "rsa" && k.bits >= 2048) || (k.kind == "ecdsa" && k.curve == "P256")) {
				want, st.mustBe = "err", "err" // no verifier for a non-compliant key
			}
			st.got, st.emsg = guard(func() error { return ctutil.VerifySCT(k.pub, it.chain, &g, false) })
		case it.kind == "util":
			st.api = "ctutil.VerifySCTWithVerifier(the object's verifier, chain, sct, false)"
			st.got, st.emsg = guard(func() error { return ctutil.VerifySCTWithVerifier(o.sv, it.chain, &g, false) })
		case o.kind == "loginfo":
			st.api = "LogInfo.VerifySCTSignature(sct, leaf)"
			st.got, st.emsg = guard(func() error { return o.li.VerifySCTSignature(g, it.en.toGo().Leaf) })
		case o.kind == "verifier":
			st.api = "SignatureVerifier.VerifySCTSignature(sct, entry)"
			st.got, st.emsg = guard(func() error { return o.sv.VerifySCTSignature(g, it.en.toGo()) })
		default:
			st.api = "ct.SignatureVerifier{PubKey: key}.VerifySCTSignature(sct, entry)"
			st.got, st.emsg = guard(func() error { return ct.SignatureVerifier{PubKey: k.pub}.VerifySCTSignature(g, it.en.toGo()) })
		}
	case "sth":
		msg = rfcSTHInput(it.t)
		orc = measure(k, msg, it.t.sig, it.t.h)
		if msg != nil {
			want = expectVerify(k, it.t.h, it.t.a, msg, it.t.sig)
		}
		st.detail = map[string]interface{}{"version": it.t.version, "tree_size": it.t.size, "timestamp": it.t.ts, "root": hx(it.t.root[:]), "hash": it.t.h, "sigalg": it.t.a, "sig": hx(it.t.sig), "signed_bytes": hx(msg)}
		st.op = func(in *interner) string { return "OpSth " + in.sth(it.t) }
		if o.kind == "package" {
			st.api = "ct.SignatureVerifier{PubKey: key}.VerifySTHSignature(sth)"
			st.got, st.emsg = guard(func() error { return ct.SignatureVerifier{PubKey: k.pub}.VerifySTHSignature(it.t.toGo()) })
		} else {
			st.api = "the object's verifier .VerifySTHSignature(sth)"
			st.got, st.emsg = guard(func() error { return o.sv.VerifySTHSignature(it.t.toGo()) })
		}
	case "blob":
		msg = it.data
		orc = measure(k, msg, it.sig, it.h)
		want = expectVerify(k, it.h, it.a, msg, it.sig)
		st.detail = map[string]interface{}{"data": hx(it.data), "hash": it.h, "sigalg": it.a, "sig": hx(it.sig)}
		st.op = func(in *interner) string {
			return fmt.Sprintf("OpVerify %s %s", in.bs(it.data), in.dsig(it.h, it.a, it.sig))
		}
		if o.kind == "package" {
			st.api = "tls.VerifySignature(key, data, sig)"
			st.got, st.emsg = guard(func() error { return tls.VerifySignature(k.pub, it.data, mkDS(it.h, it.a, it.sig)) })
		} else {
			st.api = "the object's verifier .VerifySignature(data, sig)"
			st.got, st.emsg = guard(func() error { return o.sv.VerifySignature(it.data, mkDS(it.h, it.a, it.sig)) })
		}
	case "json":
		msg = it.data
		orc = measure(k, msg, it.sig, 4)
		var tmp loglist3.LogList
		orc.json = json.Unmarshal(it.data, &tmp) == nil
		if (k.kind == "rsa" || k.kind == "ecdsa") && expectVerify(k, 4, sigAlgOf[k.kind], it.data, it.sig) == "ok" && orc.json {
			want = "ok"
		}
		if k.kind != "rsa" && k.kind != "ecdsa" {
			st.mustBe = "err" // unsupported public key type
		}
		st.detail = map[string]interface{}{"data": hx(it.data), "sig": hx(it.sig), "json_parses": orc.json}
		st.op = func(in *interner) string { return fmt.Sprintf("OpJson %s %s", in.bs(it.data), in.bs(it.sig)) }
		st.api = "loglist3.NewFromSignedJSON(data, sig, key)"
		st.got, st.emsg = guard(func() error { _, err := loglist3.NewFromSignedJSON(it.data, it.sig, k.pub); return err })
	case "touch":
		st.compared = false
		st.api = "LogInfo." + it.touch
		want = ""
		fake := &oneLeafLog{root: rfcLeafHash(it.en, it.s.ts)}
		o.li.Client = fake
		last := "None"
		switch it.touch {
		case "SetSTH":
			g := it.t.toGo()
			st.got, st.emsg = guard(func() error { o.li.SetSTH(&g); return nil })
		case "SetSTH(nil)":
			st.got, st.emsg = guard(func() error { o.li.SetSTH(nil); return nil })
		case "LastSTH":
			st.got, st.emsg = guard(func() error { o.li.LastSTH(); return nil })
		case "VerifyInclusionAt":
			st.got, st.emsg = guard(func() error {
				_, err := o.li.VerifyInclusionAt(context.Background(), it.en.toGo().Leaf, it.s.ts, 1, fake.root[:])
				return err
			})
		case "VerifyInclusionLatest":
			st.got, st.emsg = guard(func() error {
				_, err := o.li.VerifyInclusionLatest(context.Background(), it.en.toGo().Leaf, it.s.ts)
				return err
			})
		case "VerifyInclusion":
			st.got, st.emsg = guard(func() error {
				_, err := o.li.VerifyInclusion(context.Background(), it.en.toGo().Leaf, it.s.ts)
				return err
			})
		}
		if l := o.li.LastSTH(); l != nil {
			last = lib.Some(lib.Pair(lib.Nn(l.TreeSize), lib.Hex(l.SHA256RootHash[:4]))) // (a mark of which STH it is)
		}
		st.op = func(in *interner) string { return "OpTouch " + last }
		st.detail = map[string]interface{}{"last_sth_afterwards": last}
	}
	st.want = want
	if st.compared {
		st.orc = orc
		st.detail["direct"] = orc.note
	}
	o.steps = append(o.steps, st)
}

// touches between the verifications of a LogInfo
func touchItem(rnd *mrand.Rand, m *hMaterial) hItem {
	v := m.valids[rnd.Intn(3)].item // an SCT over a hand-made entry
	it := hItem{kind: "touch", s: v.s, en: v.en, t: m.valids[6].item.t}
	it.touch = []string{"SetSTH", "SetSTH(nil)", "LastSTH", "VerifyInclusionAt", "VerifyInclusionLatest", "VerifyInclusion"}[rnd.Intn(6)]
	it.what = "touch:" + it.touch
	return it
}

// ---------------------------------------------------------------- sessions

type hSessionObj struct {
	o      *hObject
	script []hItem
}

// runSession interleaves the scripts of its objects (each script's own order is kept) and emits
// one case per object.
func (e *emitter) runSession(rnd *mrand.Rand, name string, objs []hSessionObj) {
	pos := make([]int, len(objs))
	order := 0
	for {
		var live []int
		for i, so := range objs {
			if pos[i] < len(so.script) {
				live = append(live, i)
			}
		}
		if len(live) == 0 {
			break
		}
		i := live[0]
		if len(live) > 1 { // runs of a few calls on one object, then the other
			i = live[rnd.Intn(len(live))]
		}
		for n := 1 + rnd.Intn(4); n > 0 && pos[i] < len(objs[i].script); n-- {
			objs[i].o.call(order, objs[i].script[pos[i]])
			pos[i]++
			order++
		}
	}
	for oi, so := range objs {
		e.emitHistory(name, oi, len(objs), so.o)
	}
}

func (e *emitter) emitHistory(session string, oi, nobj int, o *hObject) {
	in := &interner{names: map[string]string{}}
	callIdx := map[string]int{}
	var calls, seq []string
	var steps, bad []interface{}
	firstSame := map[string]int{} // signature value -> the step it was first accepted at
	ok, note := true, ""
	tagset := map[string]bool{}
	for i, st := range o.steps {
		optext := st.op(in) // first: binds the certificate the signed bytes are then written around
		ocoq, obs := "no_oracle", "None"
		if st.compared {
			obs = lib.Some(coqOutcome(st.got))
			if st.orc.accepted() {
				ocoq = in.oracle(st.orc)
			}
		}
		ctext := fmt.Sprintf("{| h_op := %s; h_oracle := %s |}", optext, ocoq)
		ci, known := callIdx[ctext]
		if !known {
			ci = len(calls)
			callIdx[ctext] = ci
			calls = append(calls, ctext)
		}
		seq = append(seq, lib.Pair(lib.Nn(uint64(ci)), obs))
		rec := map[string]interface{}{"step": i, "session_order": st.order, "call": st.api, "what": st.it.what, "impl": st.got}
		if st.compared {
			rec["stateless_oracle"] = st.want
		}
		steps = append(steps, rec)
		tagset["hist-call:"+st.it.kind] = true
		if !st.compared {
			if st.got == "panic" {
				tagset["hist-touch-panic"] = true
			}
			continue
		}
		tagset["impl:"+st.got] = true
		tagset["hist-class:"+strings.SplitN(strings.SplitN(st.it.what, ":", 2)[1], ":", 2)[0]] = true
		sk := string(st.it.sigBytes())
		prev, seen := firstSame[sk]
		if seen && st.want == "err" {
			tagset["hist:rejected-after-same-signature-was-accepted"] = true
		}
		if seen && st.want == "ok" {
			tagset["hist:accepted-again"] = true
		}
		wrong := st.got != st.want
		constructed := st.mustBe != "" && st.want != st.mustBe
		if wrong || constructed {
			d := map[string]interface{}{"step": i, "call": st.api, "what": st.it.what, "impl": st.got, "error": st.emsg, "stateless_oracle": st.want}
			if seen {
				d["same_signature_value_accepted_at_step"] = prev
				d["accepted_there_as"] = o.steps[prev].it.what
			}
			if len(bad) < 3 { // the arguments in full for the first few
				d["arguments"] = st.detail
				if seen {
					d["accepted_there_with"] = o.steps[prev].detail
				}
			}
			if constructed {
				d["constructed_to_be"] = st.mustBe
			}
			bad = append(bad, d)
			if ok {
				after := "no earlier call accepted this signature value"
				if seen {
					after = fmt.Sprintf("step %d (%s) accepted the same signature value", prev, o.steps[prev].it.what)
				}
				if wrong {
					note = fmt.Sprintf("history object=%s(%s) key=%s step=%d %s impl=%s want=%s; %s", o.kind, o.built, o.k.name, i, st.it.what, st.got, st.want, after)
				} else {
					note = fmt.Sprintf("history object=%s key=%s step=%d %s: constructed to be %s but the direct computation says %s", o.kind, o.k.name, i, st.it.what, st.mustBe, st.want)
				}
			}
			ok = false
		}
		if st.got == "ok" && !seen {
			firstSame[sk] = i
		}
	}
	tags := []string{"api:history", "object:" + o.kind, "key:" + o.k.name, fmt.Sprintf("hist-objects-in-session:%d", nobj)}
	for t := range tagset {
		tags = append(tags, t)
	}
	sort.Strings(tags)
	if bad == nil {
		bad = []interface{}{}
	}
	e.w.Add(lib.Case{
		// (the bindings scope over the table of calls only: Coq's elaboration of a let is not linear in its body)
		Coq: fmt.Sprintf("(CHist %s (%s%s) %s)", o.k.coq(), strings.Join(in.defs, ""), lib.List(calls), lib.List(seq)),
		Key: fmt.Sprintf("CHist %s %s %d %s", session, o.kind, oi, o.k.name),
		Input: map[string]interface{}{"api": "history on one object", "object": o.kind, "built_by": o.built, "key": o.k.name, "session": session,
			"objects_in_session": nobj, "calls": len(o.steps), "distinct_calls": len(calls), "steps": steps},
		Impl:   map[string]interface{}{"disagreements_with_the_stateless_oracle": bad},
		PropOK: ok, Note: note, Tags: tags,
	})
}

type histPlan struct {
	kind        string
	key         string
	constructor bool
}

func (e *emitter) historyPlans() []histPlan {
	if lib.Tier() != "thorough" {
		return []histPlan{
			{"loginfo", "p256", true}, {"verifier", "rsa2048", false}, {"package", "p256", false},
			{"loginfo", "rsa2048", true}, {"verifier", "p256", true}, {"loginfo", "dsa1024", false},
			{"package", "rsa2048", false}, {"loginfo", "p384", false}, {"verifier", "dsa1024", false},
		}
	}
	var plans []histPlan
	for i, k := range e.ks.signing {
		plans = append(plans, histPlan{"loginfo", k.name, true}, histPlan{"verifier", k.name, i%2 == 0}, histPlan{"package", k.name, false})
		if i%2 == 0 {
			plans = append(plans, histPlan{"loginfo", k.name, false})
		}
	}
	return plans
}

// historyTick is called between (and inside) the other streams.  A history case costs the Coq
// evaluation about as much as a few hundred ordinary cases, and shards are evaluated in parallel:
// a session is emitted when the cases have moved on to a shard that holds no history yet; what is
// left is emitted at the end (flush).  The sessions draw from their own generator (derived from the
// seed), so what the other streams generate does not depend on where the sessions fall.
func (e *emitter) historyTick(flush bool) {
	if e.hplans == nil {
		e.hplans = e.historyPlans()
		e.hrnd = mrand.New(mrand.NewSource(lib.Seed()*1000003 + 5))
		e.hshard = -1
	}
	for e.hnext < len(e.hplans) && (flush || e.w.Len()/shardSize != e.hshard) {
		e.historySession(e.hplans[e.hnext])
		e.hnext++
		e.hshard = e.w.Len() / shardSize
	}
}

func (e *emitter) historySession(p histPlan) {
	tail := lib.Count(20, 200)
	rnd := mrand.New(mrand.NewSource(e.hrnd.Int63()))
	k := e.ks.byName[p.key]
	alt := e.ks.alt[k.name]
	m := material(rnd, k, alt, p.kind == "package")
	first := newObject(p.kind, k, p.constructor)
	second := newObject(p.kind, alt, !p.constructor)
	s1 := script(rnd, m.valids, true, tail)
	s2 := script(rnd, m.altValids, false, tail/2)
	if p.kind == "loginfo" { // operations that verify nothing, in between
		withTouches := func(sc []hItem) []hItem {
			var out []hItem
			for _, it := range sc {
				if rnd.Intn(6) == 0 {
					out = append(out, touchItem(rnd, m))
				}
				out = append(out, it)
			}
			return out
		}
		s1, s2 = withTouches(s1), withTouches(s2)
	}
	e.runSession(rnd, fmt.Sprintf("%s/%s", p.kind, p.key), []hSessionObj{{first, s1}, {second, s2}})
}
