// C11 harness: the differential / validation part of the check for "the lenient X.509 parser is
// total, error-coherent and exact on well-formed input".
//
//	(i)   totality + coherence + raw-slice fidelity: every exported parser, under recover() and a
//	      watchdog, on real and generated certificates / CRLs / keys / CSRs, on structure-preserving
//	      mutations of them (bit flips, length edits, truncation, TLV splices, lax-only encodings)
//	      and on random bytes.  Oracle: (object != nil) == !IsFatal(err); Raw* fields are sub-slices
//	      of the input at the offsets an independent TLV walker computes.
//	(ii)  conformance: see conform.go.
//	(iii) concatenations: ParseCertificates(c1||c2||...) against each piece alone.
//	(iv)  certificate lists with sound / wrongly flagged / undecodable extension values at the entry
//	      and at the list level, every combination of the two levels: see crlext.go.
//	(v)   empty / boundary cardinalities of every SET OF, SEQUENCE OF and constructed element of
//	      certificates, requests, lists and keys: see cardinality.go.
//	(vi)  the encodings of a private-key value (short, exact, over-long by 1..n zero octets, over-long
//	      non-zero) for every curve and container against an independent reference, and leading
//	      padding of every primitive value of every key document: see keyscalar.go.
//
// Model-tied cases (CSingle / CMany / CStrict / CList / CFatal) additionally carry what the inner
// pieces (asn1.Unmarshal strict / lax into the real structure type, parseCertificate) do on the
// very input, so that the Coq wrapper model can be run on it and compared.
package main

import (
	"crypto/sha256"
	"encoding/hex"
	"encoding/pem"
	"errors"
	"flag"
	"fmt"
	mrand "math/rand"
	"os"
	"path/filepath"
	"reflect"
	"sort"
	"strings"
	"time"
	"unsafe"

	"github.com/google/certificate-transparency-go/asn1"
	"github.com/google/certificate-transparency-go/x509"
	"github.com/google/certificate-transparency-go/x509/pkix"

	"verif/harness/lib"
)

const header = `From Coq Require Import List Bool NArith String. Import ListNotations.
From V Require Import X509.WrapperShape X509.WrapperModel X509.WrapperCase.
Local Open Scope N_scope.
`

func repoDir() string {
	if d := os.Getenv("VERIF_REPO"); d != "" {
		return d
	}
	return "/repo"
}

// ---------------------------------------------------------------- guarded calls

type res struct {
	has      bool
	err      error
	certs    []*x509.Certificate // certificate objects returned (for the raw-field checks)
	list     bool                // the object is a slice of certificates
	nilSlice bool
	panicked string
	hung     bool
}

func guard(f func() res) res {
	ch := make(chan res, 1)
	go func() {
		defer func() {
			if p := recover(); p != nil {
				ch <- res{panicked: fmt.Sprint(p)}
			}
		}()
		ch <- f()
	}()
	select {
	case r := <-ch:
		return r
	case <-time.After(30 * time.Second):
		return res{hung: true}
	}
}

func one(c *x509.Certificate) []*x509.Certificate {
	if c == nil {
		return nil
	}
	return []*x509.Certificate{c}
}

type parser struct {
	name string
	f    func(b []byte) res
}

var parsers = []parser{
	{"ParseCertificate", func(b []byte) res {
		c, err := x509.ParseCertificate(b)
		return res{has: c != nil, err: err, certs: one(c)}
	}},
	{"ParseTBSCertificate", func(b []byte) res {
		c, err := x509.ParseTBSCertificate(b)
		return res{has: c != nil, err: err, certs: one(c)}
	}},
	{"ParseCertificates", func(b []byte) res {
		cs, err := x509.ParseCertificates(b)
		return res{has: cs != nil, err: err, certs: cs, list: true, nilSlice: cs == nil}
	}},
	{"ParseCertificateList", func(b []byte) res { c, err := x509.ParseCertificateList(b); return res{has: c != nil, err: err} }},
	{"ParseCertificateListDER", func(b []byte) res { c, err := x509.ParseCertificateListDER(b); return res{has: c != nil, err: err} }},
	{"ParseCRL", func(b []byte) res { c, err := x509.ParseCRL(b); return res{has: c != nil, err: err} }},
	{"ParseDERCRL", func(b []byte) res { c, err := x509.ParseDERCRL(b); return res{has: c != nil, err: err} }},
	{"ParsePKIXPublicKey", func(b []byte) res { k, err := x509.ParsePKIXPublicKey(b); return res{has: k != nil, err: err} }},
	{"ParsePKCS1PrivateKey", func(b []byte) res { k, err := x509.ParsePKCS1PrivateKey(b); return res{has: k != nil, err: err} }},
	{"ParsePKCS1PublicKey", func(b []byte) res { k, err := x509.ParsePKCS1PublicKey(b); return res{has: k != nil, err: err} }},
	{"ParsePKCS8PrivateKey", func(b []byte) res { k, err := x509.ParsePKCS8PrivateKey(b); return res{has: k != nil, err: err} }},
	{"ParseECPrivateKey", func(b []byte) res { k, err := x509.ParseECPrivateKey(b); return res{has: k != nil, err: err} }},
	{"ParseCertificateRequest", func(b []byte) res { c, err := x509.ParseCertificateRequest(b); return res{has: c != nil, err: err} }},
}

const (
	fnCert = iota
	fnTBS
	fnCerts
	fnList
	fnListDER
	fnCRL
	fnDERCRL
	fnPKIX
	fnPKCS1Priv
	fnPKCS1Pub
	fnPKCS8
	fnEC
	fnCSR
)

// ---------------------------------------------------------------- error classes

var idNames = map[x509.ErrorID]string{
	x509.ErrInvalidID: "ErrInvalidID", x509.ErrInvalidCertList: "ErrInvalidCertList", x509.ErrTrailingCertList: "ErrTrailingCertList",
	x509.ErrUnexpectedlyCriticalCertListExtension:    "ErrUnexpectedlyCriticalCertListExtension",
	x509.ErrUnexpectedlyNonCriticalCertListExtension: "ErrUnexpectedlyNonCriticalCertListExtension",
	x509.ErrInvalidCertListAuthKeyID:                 "ErrInvalidCertListAuthKeyID", x509.ErrTrailingCertListAuthKeyID: "ErrTrailingCertListAuthKeyID",
	x509.ErrInvalidCertListIssuerAltName: "ErrInvalidCertListIssuerAltName", x509.ErrInvalidCertListCRLNumber: "ErrInvalidCertListCRLNumber",
	x509.ErrTrailingCertListCRLNumber: "ErrTrailingCertListCRLNumber", x509.ErrNegativeCertListCRLNumber: "ErrNegativeCertListCRLNumber",
	x509.ErrInvalidCertListDeltaCRL: "ErrInvalidCertListDeltaCRL", x509.ErrTrailingCertListDeltaCRL: "ErrTrailingCertListDeltaCRL",
	x509.ErrNegativeCertListDeltaCRL: "ErrNegativeCertListDeltaCRL", x509.ErrInvalidCertListIssuingDP: "ErrInvalidCertListIssuingDP",
	x509.ErrTrailingCertListIssuingDP: "ErrTrailingCertListIssuingDP", x509.ErrCertListIssuingDPMultipleTypes: "ErrCertListIssuingDPMultipleTypes",
	x509.ErrCertListIssuingDPInvalidFullName: "ErrCertListIssuingDPInvalidFullName", x509.ErrInvalidCertListFreshestCRL: "ErrInvalidCertListFreshestCRL",
	x509.ErrInvalidCertListAuthInfoAccess: "ErrInvalidCertListAuthInfoAccess", x509.ErrTrailingCertListAuthInfoAccess: "ErrTrailingCertListAuthInfoAccess",
	x509.ErrUnhandledCriticalCertListExtension:          "ErrUnhandledCriticalCertListExtension",
	x509.ErrUnexpectedlyCriticalRevokedCertExtension:    "ErrUnexpectedlyCriticalRevokedCertExtension",
	x509.ErrUnexpectedlyNonCriticalRevokedCertExtension: "ErrUnexpectedlyNonCriticalRevokedCertExtension",
	x509.ErrInvalidRevocationReason:                     "ErrInvalidRevocationReason", x509.ErrTrailingRevocationReason: "ErrTrailingRevocationReason",
	x509.ErrInvalidRevocationInvalidityDate: "ErrInvalidRevocationInvalidityDate", x509.ErrTrailingRevocationInvalidityDate: "ErrTrailingRevocationInvalidityDate",
	x509.ErrInvalidRevocationIssuer: "ErrInvalidRevocationIssuer", x509.ErrUnhandledCriticalRevokedCertExtension: "ErrUnhandledCriticalRevokedCertExtension",
}

// goErr renders the DYNAMIC TYPE of an error (independently of x509.IsFatal) as the Coq `goerr`.
func goErr(err error) (coq string, js string) {
	switch e := err.(type) {
	case nil:
		return "GNil", "nil"
	case x509.NonFatalErrors:
		return fmt.Sprintf("(GNfe %d%%N)", len(e.Errors)), fmt.Sprintf("NonFatalErrors(%d)", len(e.Errors))
	case *x509.NonFatalErrors:
		return "GNfePtr", "*NonFatalErrors"
	case *x509.Errors:
		if e == nil {
			return "(GErrs None)", "*Errors(nil)"
		}
		var fl []string
		for _, x := range e.Errs {
			fl = append(fl, lib.Bool(x.Fatal))
		}
		return "(GErrs (Some " + lib.List(fl) + "))", fmt.Sprintf("*Errors%v", fl)
	default:
		return "GOther", "other"
	}
}

// pcls renders the error as the Coq `pcls` (class + count / ids).
func pcls(err error) string {
	switch e := err.(type) {
	case nil:
		return "PNil"
	case x509.NonFatalErrors:
		return fmt.Sprintf("(PNfe %d%%N)", len(e.Errors))
	case *x509.Errors:
		if e == nil {
			return "(PErrs [])"
		}
		var ids []string
		for _, x := range e.Errs {
			n, ok := idNames[x.ID]
			if !ok {
				n = fmt.Sprintf("id%d", x.ID)
			}
			ids = append(ids, lib.Str(n)+"%string")
		}
		return "(PErrs " + lib.List(ids) + ")"
	default:
		return "POther"
	}
}

func nfeCount(err error) int {
	if e, ok := err.(x509.NonFatalErrors); ok {
		return len(e.Errors)
	}
	return 0
}

// ---------------------------------------------------------------- raw fields

func subAt(b, s []byte) (int, bool) {
	if len(s) == 0 {
		return -1, true
	}
	if len(b) == 0 {
		return 0, false
	}
	p, q := uintptr(unsafe.Pointer(&s[0])), uintptr(unsafe.Pointer(&b[0]))
	if p < q || p+uintptr(len(s)) > q+uintptr(len(b)) {
		return 0, false
	}
	return int(p - q), true
}

// expected offsets of the raw fields of the certificate that starts at off (independent walker)
type rawLayout struct{ cert, tbs, issuer, subject, spki [2]int }

func layout(b []byte, off int, tbsOnly bool) (rawLayout, bool) {
	var l rawLayout
	var tbs tlv
	var ok bool
	if tbsOnly {
		tbs, ok = readTLV(b, off)
		if !ok {
			return l, false
		}
		l.cert = [2]int{tbs.off, tbs.end()}
	} else {
		outer, ok := readTLV(b, off)
		if !ok || outer.tag != 0x30 {
			return l, false
		}
		l.cert = [2]int{outer.off, outer.end()}
		tbs, ok = readTLV(b[:outer.end()], outer.off+outer.hdr)
		if !ok {
			return l, false
		}
	}
	if tbs.tag != 0x30 {
		return l, false
	}
	l.tbs = [2]int{tbs.off, tbs.end()}
	ks := kids(b, tbs)
	i := 0
	if len(ks) > 0 && ks[0].tag == 0xa0 {
		i = 1
		// Go's decoders (encoding/asn1 and the fork alike) step INTO an explicit wrapper and continue
		// after the inner element without comparing the wrapper's declared length with it.  When the
		// two disagree the bytes have no single reading: this walker then establishes no layout (the
		// sub-slice check is still made).
		if inner, ok := readTLV(b[:ks[0].end()], ks[0].off+ks[0].hdr); !ok || inner.end() != ks[0].end() {
			return l, false
		}
	}
	if len(ks) < i+6 {
		return l, false
	}
	l.issuer = [2]int{ks[i+2].off, ks[i+2].end()}
	l.subject = [2]int{ks[i+4].off, ks[i+4].end()}
	l.spki = [2]int{ks[i+5].off, ks[i+5].end()}
	return l, true
}

// rawOK: every raw field of every returned certificate is the expected sub-slice of b.
// Returns ("", true) when fine, (reason, false) otherwise; unsure=true when the walker could
// not establish the layout (the pointer check is still made).
func rawOK(fn int, b []byte, r res) (string, bool, bool) {
	if fn != fnCert && fn != fnTBS && fn != fnCerts {
		return "", true, false
	}
	off := 0
	unsure := false
	for i, c := range r.certs {
		if c == nil {
			return fmt.Sprintf("entry %d is nil", i), false, false
		}
		fields := []struct {
			n string
			s []byte
		}{{"Raw", c.Raw}, {"RawTBSCertificate", c.RawTBSCertificate}, {"RawIssuer", c.RawIssuer}, {"RawSubject", c.RawSubject}, {"RawSubjectPublicKeyInfo", c.RawSubjectPublicKeyInfo}}
		lay, ok := layout(b, off, fn == fnTBS)
		if !ok {
			unsure = true
		}
		want := [][2]int{lay.cert, lay.tbs, lay.issuer, lay.subject, lay.spki}
		for k, f := range fields {
			at, in := subAt(b, f.s)
			if !in {
				return f.n + " is not a sub-slice of the input", false, false
			}
			if ok && len(f.s) > 0 && (at != want[k][0] || at+len(f.s) != want[k][1]) {
				return fmt.Sprintf("%s is input[%d:%d], expected input[%d:%d]", f.n, at, at+len(f.s), want[k][0], want[k][1]), false, false
			}
			if ok && len(f.s) == 0 && want[k][1] != want[k][0] {
				return f.n + " is empty", false, false
			}
		}
		if at, _ := subAt(b, c.Raw); at != off {
			return fmt.Sprintf("Raw of certificate %d starts at %d, expected %d", i, at, off), false, false
		}
		off += len(c.Raw)
	}
	if r.has && !r.list && fn != fnCerts && len(r.certs) == 1 && len(r.certs[0].Raw) != len(b) {
		return "Raw is not the whole input", false, false
	}
	if fn == fnCerts && r.has && off != len(b) {
		return "Raw fields do not tile the input", false, false
	}
	return "", true, unsure
}

// ---------------------------------------------------------------- inner observations

var vtypes = x509.VerifTypes()

type uo struct {
	ok   bool
	next int
}

func (u uo) coq() string {
	if !u.ok {
		return "UFail"
	}
	return fmt.Sprintf("(UOkAt %d%%N)", u.next)
}

func unmInto(p interface{}, b []byte, lax bool, base int) (out uo) {
	defer func() {
		if recover() != nil {
			out = uo{}
		}
	}()
	var rest []byte
	var err error
	if lax {
		rest, err = asn1.UnmarshalWithParams(b, p, "lax")
	} else {
		rest, err = asn1.Unmarshal(b, p)
	}
	if err != nil {
		return uo{}
	}
	return uo{true, base + len(b) - len(rest)}
}

func unmObs(typ string, b []byte, off int, lax bool) uo {
	return unmInto(reflect.New(vtypes[typ]).Interface(), b[off:], lax, off)
}

type inst struct {
	total  int
	offs   []int
	unm    map[int][2]uo
	parse  map[[2]int]string // (off, lax) -> "(has, pcls)"
	incons string
}

// derive the class of parseCertificate on the structure parsed from exactly `piece`, from what
// the single-certificate entry point returns for it (strictOK: the strict Unmarshal succeeds, so
// the entry point adds no error of its own; otherwise it adds exactly one).
func derive(single func([]byte) res, piece []byte, strictOK bool) (string, bool) {
	r := guard(func() res { return single(piece) })
	if r.panicked != "" || r.hung {
		return "", false
	}
	switch e := r.err.(type) {
	case nil:
		if !strictOK {
			return "", false // the lax path must have recorded the strict error
		}
		return lib.Pair(lib.Bool(r.has), "PNil"), true
	case x509.NonFatalErrors:
		n := len(e.Errors)
		if !strictOK {
			n--
		}
		if n < 0 {
			return "", false
		}
		if n == 0 && !strictOK {
			return lib.Pair(lib.Bool(r.has), "PNil"), true
		}
		return lib.Pair(lib.Bool(r.has), fmt.Sprintf("(PNfe %d%%N)", n)), true
	default:
		return lib.Pair(lib.Bool(r.has), pcls(r.err)), true
	}
}

func buildInst(typ string, single func([]byte) res, b []byte) inst {
	in := inst{total: len(b), unm: map[int][2]uo{}, parse: map[[2]int]string{}}
	var queue []int
	if len(b) > 0 {
		queue = append(queue, 0)
	}
	for len(queue) > 0 && len(in.offs) < 48 {
		off := queue[0]
		queue = queue[1:]
		if _, seen := in.unm[off]; seen || off >= len(b) {
			continue
		}
		s, l := unmObs(typ, b, off, false), unmObs(typ, b, off, true)
		in.unm[off] = [2]uo{s, l}
		in.offs = append(in.offs, off)
		switch {
		case s.ok:
			if d, ok := derive(single, b[off:s.next], true); ok {
				in.parse[[2]int{off, 0}] = d
			} else {
				in.incons = fmt.Sprintf("strict piece at %d", off)
			}
			queue = append(queue, s.next)
		case l.ok:
			if d, ok := derive(single, b[off:l.next], false); ok {
				in.parse[[2]int{off, 1}] = d
			} else {
				in.incons = fmt.Sprintf("lax piece at %d", off)
			}
			queue = append(queue, l.next)
		}
	}
	return in
}

func (in inst) coq() string {
	var us, ps []string
	for _, off := range in.offs {
		u := in.unm[off]
		us = append(us, fmt.Sprintf("(%d%%N, (%s, %s))", off, u[0].coq(), u[1].coq()))
	}
	var keys [][2]int
	for k := range in.parse {
		keys = append(keys, k)
	}
	sort.Slice(keys, func(i, j int) bool {
		return keys[i][0] < keys[j][0] || (keys[i][0] == keys[j][0] && keys[i][1] < keys[j][1])
	})
	for _, k := range keys {
		ps = append(ps, fmt.Sprintf("((%d%%N, %s), %s)", k[0], lib.Bool(k[1] == 1), in.parse[k]))
	}
	return fmt.Sprintf("(mkInst %d%%N %s %s)", in.total, lib.List(us), lib.List(ps))
}

// ---------------------------------------------------------------- documents

type doc struct {
	kind string // cert tbs crl pub pkcs1 pkcs1pub pkcs8 ec csr
	src  string
	der  []byte
}

func sha(b []byte) string {
	h := sha256.Sum256(b)
	return hex.EncodeToString(h[:6])
}

func describe(src string, ops []string, b []byte, full bool) map[string]interface{} {
	m := map[string]interface{}{"src": src, "ops": ops, "len": len(b), "sha256": sha(b)}
	if full || len(b) <= 48 {
		m["hex"] = hex.EncodeToString(b)
	}
	return m
}

func loadPEMDocs() []doc {
	var out []doc
	root := repoDir()
	var files []string
	for _, d := range []string{"trillian/testdata", "x509/testdata", "testdata", "x509"} {
		fs, _ := filepath.Glob(filepath.Join(root, d, "*"))
		files = append(files, fs...)
	}
	sort.Strings(files)
	seen := map[string]bool{}
	for _, f := range files {
		st, err := os.Stat(f)
		if err != nil || st.IsDir() || st.Size() > 1<<20 || strings.HasSuffix(f, ".go") {
			continue
		}
		raw, err := os.ReadFile(f)
		if err != nil {
			continue
		}
		for n := 0; ; n++ {
			var blk *pem.Block
			blk, raw = pem.Decode(raw)
			if blk == nil {
				break
			}
			if len(blk.Headers) > 0 { // encrypted keys
				continue
			}
			kind := map[string]string{"CERTIFICATE": "cert", "X509 CRL": "crl", "PUBLIC KEY": "pub", "RSA PRIVATE KEY": "pkcs1",
				"RSA PUBLIC KEY": "pkcs1pub", "PRIVATE KEY": "pkcs8", "EC PRIVATE KEY": "ec", "CERTIFICATE REQUEST": "csr"}[blk.Type]
			if kind == "" || seen[string(blk.Bytes)] {
				continue
			}
			seen[string(blk.Bytes)] = true
			rel, _ := filepath.Rel(root, f)
			out = append(out, doc{kind, fmt.Sprintf("%s#%d", rel, n), blk.Bytes})
		}
	}
	return out
}

// ---------------------------------------------------------------- main

type runner struct {
	w     *lib.Writer
	r     *mrand.Rand
	certs [][]byte // well-formed certificates (donors, concatenation pieces)
	bare  [][]byte // well-formed certificates lacking optional fields (no version / extensions / unique ids / parameters)
	all   [][]byte // every well-formed document

	flipped map[string]bool // conformance: extension values already issued with the critical flag flipped
}

// coherence + raw + totality of ONE parser on ONE input
func (rn *runner) coh(fn int, src string, ops []string, b []byte, extraTags ...string) res {
	p := parsers[fn]
	r := guard(func() res { return p.f(b) })
	tags := append([]string{"fn:" + p.name}, extraTags...)
	switch {
	case r.panicked != "":
		rn.w.Add(lib.Case{Coq: fmt.Sprintf("(CPanic %d%%N)", fn), Input: describe(src, ops, b, true), Impl: map[string]interface{}{"fn": p.name, "panic": r.panicked},
			PropOK: false, Note: fmt.Sprintf("%s panics on %s %v: %s", p.name, src, ops, r.panicked), Tags: append(tags, "outcome:panic"), Key: fmt.Sprintf("panic %d %s", fn, sha(b))})
		return r
	case r.hung:
		rn.w.Add(lib.Case{Coq: fmt.Sprintf("(CHang %d%%N)", fn), Input: describe(src, ops, b, true), Impl: map[string]interface{}{"fn": p.name, "hang": true},
			PropOK: false, Note: fmt.Sprintf("%s does not return on %s %v", p.name, src, ops), Tags: append(tags, "outcome:hang"), Key: fmt.Sprintf("hang %d %s", fn, sha(b))})
		return r
	}
	fatal := x509.IsFatal(r.err)
	ge, gj := goErr(r.err)
	why, rok, unsure := rawOK(fn, b, r)
	coherent := r.has == !fatal
	ok := coherent && rok
	note := ""
	if !coherent {
		note = fmt.Sprintf("%s incoherent: object=%v IsFatal=%v err=%s on %s %v", p.name, r.has, fatal, gj, src, ops)
	} else if !rok {
		note = fmt.Sprintf("%s raw field: %s on %s %v", p.name, why, src, ops)
	}
	cls := "fatal"
	if r.has && r.err == nil {
		cls = "ok"
	} else if r.has {
		cls = "nonfatal"
	}
	tags = append(tags, "outcome:"+cls)
	if unsure {
		tags = append(tags, "raw:layout-not-established")
	}
	rn.w.Add(lib.Case{Coq: fmt.Sprintf("(CCoh %d%%N %s %s %s %s)", fn, lib.Bool(r.has), ge, lib.Bool(fatal), lib.Bool(rok)),
		Input: describe(src, ops, b, !ok), Impl: map[string]interface{}{"fn": p.name, "object": r.has, "err": gj, "is_fatal": fatal, "raw_ok": rok},
		PropOK: ok, Note: note, Tags: tags, Key: fmt.Sprintf("coh %d %s", fn, sha(b))})
	return r
}

func obsPair(r res) string { return lib.Pair(lib.Bool(r.has), pcls(r.err)) }

// model-tied: ParseCertificate / ParseTBSCertificate on b
func (rn *runner) single(tbs bool, src string, ops []string, b []byte, tags ...string) {
	fn, typ := fnCert, "certificate"
	if tbs {
		fn, typ = fnTBS, "tbsCertificate"
	}
	r := guard(func() res { return parsers[fn].f(b) })
	if r.panicked != "" || r.hung {
		return // reported by coh
	}
	in := buildInst(typ, parsers[fn].f, b)
	fatal := x509.IsFatal(r.err)
	ok := r.has == !fatal && in.incons == ""
	note := ""
	if !ok {
		note = fmt.Sprintf("%s on %s %v: object=%v IsFatal=%v inconsistent-inner=%q", parsers[fn].name, src, ops, r.has, fatal, in.incons)
	}
	rn.w.Add(lib.Case{Coq: fmt.Sprintf("(CSingle %s %s %s %s)", lib.Bool(tbs), in.coq(), obsPair(r), lib.Bool(fatal)),
		Input: describe(src, ops, b, !ok), Impl: map[string]interface{}{"fn": parsers[fn].name, "object": r.has, "class": pcls(r.err), "is_fatal": fatal},
		PropOK: ok, Note: note, Tags: append([]string{"model:" + parsers[fn].name}, tags...)})
}

func sameCert(a, b *x509.Certificate) bool {
	if a == nil || b == nil {
		return a == b
	}
	return string(a.Raw) == string(b.Raw) && string(a.RawTBSCertificate) == string(b.RawTBSCertificate) &&
		a.SerialNumber.Cmp(b.SerialNumber) == 0 && a.Subject.String() == b.Subject.String() && a.Issuer.String() == b.Issuer.String() &&
		a.NotBefore.Equal(b.NotBefore) && a.NotAfter.Equal(b.NotAfter) && len(a.Extensions) == len(b.Extensions) &&
		reflect.DeepEqual(a.DNSNames, b.DNSNames) && a.KeyUsage == b.KeyUsage && reflect.DeepEqual(a.ExtKeyUsage, b.ExtKeyUsage) &&
		a.IsCA == b.IsCA && reflect.DeepEqual(a.SubjectKeyId, b.SubjectKeyId) && reflect.DeepEqual(a.UnhandledCriticalExtensions, b.UnhandledCriticalExtensions) &&
		a.Version == b.Version && a.SignatureAlgorithm == b.SignatureAlgorithm && a.PublicKeyAlgorithm == b.PublicKeyAlgorithm &&
		reflect.DeepEqual(a.Extensions, b.Extensions) && a.BasicConstraintsValid == b.BasicConstraintsValid && a.MaxPathLen == b.MaxPathLen &&
		reflect.DeepEqual(a.AuthorityKeyId, b.AuthorityKeyId) && reflect.DeepEqual(a.IPAddresses, b.IPAddresses) && reflect.DeepEqual(a.EmailAddresses, b.EmailAddresses) &&
		reflect.DeepEqual(a.Signature, b.Signature) && reflect.DeepEqual(a.PublicKey, b.PublicKey) && reflect.DeepEqual(a, b)
}

// model-tied + direct oracle (iii): ParseCertificates on the concatenation of pieces.
// framed: every piece is one complete TLV, so the each-alone comparison applies.
func (rn *runner) many(src string, ops []string, pieces [][]byte, framed bool, tags ...string) {
	var b []byte
	for _, p := range pieces {
		b = append(b, p...)
	}
	r := guard(func() res { return parsers[fnCerts].f(b) })
	if r.panicked != "" || r.hung {
		rn.coh(fnCerts, src, ops, b)
		return
	}
	in := buildInst("certificate", parsers[fnCert].f, b)
	fatal := x509.IsFatal(r.err)
	ok := r.has == !fatal && in.incons == ""
	note := ""
	if !ok {
		note = fmt.Sprintf("ParseCertificates on %s %v: object=%v IsFatal=%v inconsistent-inner=%q", src, ops, r.has, fatal, in.incons)
	}
	impl := map[string]interface{}{"fn": "ParseCertificates", "object": r.has, "n": len(r.certs), "class": pcls(r.err), "is_fatal": fatal}
	if ok && framed {
		// each alone
		allPass, sum, needsLax := true, 0, false
		var alone []*x509.Certificate
		var classes []string
		for _, p := range pieces {
			s := guard(func() res { return parsers[fnCert].f(p) })
			if !s.has {
				allPass = false
			}
			if s.has && s.err != nil {
				needsLax = true
			}
			sum += nfeCount(s.err)
			classes = append(classes, pcls(s.err))
			if s.has {
				alone = append(alone, s.certs[0])
			} else {
				alone = append(alone, nil)
			}
		}
		impl["each_alone"] = classes
		switch {
		case allPass && (!r.has || len(r.certs) != len(pieces)):
			ok = false
			if needsLax && fatal {
				note = fmt.Sprintf("ParseCertificates: a certificate needing lax mode parses alone (non-fatal) but the concatenation of %d is fatal", len(pieces))
			} else {
				note = fmt.Sprintf("ParseCertificates: every piece parses alone but the concatenation of %d gives object=%v n=%d", len(pieces), r.has, len(r.certs))
			}
		case allPass:
			for i := range pieces {
				if !sameCert(alone[i], r.certs[i]) {
					ok = false
					note = fmt.Sprintf("ParseCertificates: certificate %d of the concatenation differs from the one parsed alone", i)
				}
			}
			if nfeCount(r.err) != sum {
				ok = false
				note = fmt.Sprintf("ParseCertificates: %d non-fatal errors for the concatenation, %d for the pieces alone", nfeCount(r.err), sum)
			}
		case r.has:
			ok = false
			note = "ParseCertificates: a piece is fatal alone but the concatenation yields certificates"
		}
	}
	obs := "None"
	if !r.nilSlice {
		var fl []string
		for _, c := range r.certs {
			fl = append(fl, lib.Bool(c != nil))
		}
		obs = lib.Some(lib.List(fl))
	}
	rn.w.Add(lib.Case{Coq: fmt.Sprintf("(CMany %s (%s, %s) %s)", in.coq(), obs, pcls(r.err), lib.Bool(fatal)),
		Input: describe(src, ops, b, !ok), Impl: impl, PropOK: ok, Note: note,
		Tags: append([]string{"model:ParseCertificates", fmt.Sprintf("pieces:%d", len(pieces))}, tags...)})
}

func (rn *runner) strictCase(fn int, src string, ops []string, b []byte) {
	r := guard(func() res { return parsers[fn].f(b) })
	if r.panicked != "" || r.hung {
		return
	}
	var u uo
	pre, exact := true, false
	switch fn {
	case fnDERCRL:
		u = unmInto(new(pkix.CertificateList), b, false, 0)
		exact = true
	case fnPKIX:
		p := reflect.New(vtypes["publicKeyInfo"])
		u = unmInto(p.Interface(), b, false, 0)
		if u.ok {
			oid, _ := p.Elem().FieldByName("Algorithm").FieldByName("Algorithm").Interface().(asn1.ObjectIdentifier)
			pre = false
			for _, k := range []asn1.ObjectIdentifier{x509.OIDPublicKeyRSA, x509.OIDPublicKeyDSA, x509.OIDPublicKeyECDSA, x509.OIDPublicKeyRSAESOAEP, x509.OIDPublicKeyEd25519} {
				if oid.Equal(k) {
					pre = true
				}
			}
		}
	}
	fatal := x509.IsFatal(r.err)
	ok := r.has == !fatal
	rn.w.Add(lib.Case{Coq: fmt.Sprintf("(CStrict %d%%N %s %d%%N %s %s %s %s)", fn, u.coq(), len(b), lib.Bool(pre), lib.Bool(exact), obsPair(r), lib.Bool(fatal)),
		Input: describe(src, ops, b, !ok), Impl: map[string]interface{}{"fn": parsers[fn].name, "object": r.has, "class": pcls(r.err), "is_fatal": fatal},
		PropOK: ok, Tags: []string{"model:" + parsers[fn].name}})
}

func (rn *runner) listCase(src string, ops []string, b []byte) {
	r := guard(func() res { return parsers[fnListDER].f(b) })
	if r.panicked != "" || r.hung {
		return
	}
	u := unmInto(new(pkix.CertificateList), b, false, 0)
	ck := "(Some [])"
	switch e := r.err.(type) {
	case nil:
	case *x509.Errors:
		if u.ok && u.next == len(b) {
			var ids []string
			for _, x := range e.Errs {
				ids = append(ids, lib.Str(idNames[x.ID])+"%string")
			}
			ck = lib.Some(lib.List(ids))
		}
	default:
		ck = "None"
	}
	fatal := x509.IsFatal(r.err)
	ok := r.has == !fatal
	rn.w.Add(lib.Case{Coq: fmt.Sprintf("(CList %s %d%%N %s %s %s)", u.coq(), len(b), ck, obsPair(r), lib.Bool(fatal)),
		Input: describe(src, ops, b, !ok), Impl: map[string]interface{}{"fn": "ParseCertificateListDER", "object": r.has, "class": pcls(r.err), "is_fatal": fatal},
		PropOK: ok, Tags: []string{"model:ParseCertificateListDER"}})
}

func (rn *runner) isFatalCases() {
	var withID = func(ids ...x509.ErrorID) error {
		e := &x509.Errors{}
		for _, id := range ids {
			e.AddID(id)
		}
		return e
	}
	errsList := []error{nil, x509.NonFatalErrors{}, x509.NonFatalErrors{Errors: []error{errors.New("x")}},
		x509.NonFatalErrors{Errors: []error{errors.New("x"), asn1.SyntaxError{Msg: "y"}}}, &x509.NonFatalErrors{Errors: []error{errors.New("x")}},
		(*x509.Errors)(nil), &x509.Errors{}, errors.New("plain"), asn1.SyntaxError{Msg: "s"}, asn1.StructuralError{Msg: "t"},
		x509.Error{ID: x509.ErrInvalidCertListAuthKeyID}, x509.Error{Fatal: true}, fmt.Errorf("wrapped: %w", x509.NonFatalErrors{}),
		x509.UnhandledCriticalExtension{}, x509.InsecureAlgorithmError(1), x509.ConstraintViolationError{},
		withID(x509.ErrInvalidCertListAuthKeyID, x509.ErrNegativeCertListCRLNumber), withID(x509.ErrInvalidCertListAuthKeyID, x509.ErrInvalidCertList),
		withID(x509.ErrMaxID), withID(x509.ErrMaxID+7, x509.ErrInvalidCertListAuthKeyID)}
	for id := x509.ErrInvalidID; id < x509.ErrMaxID; id++ {
		errsList = append(errsList, withID(id))
	}
	for i, e := range errsList {
		ge, gj := goErr(e)
		var fatal, pan bool
		func() {
			defer func() {
				if recover() != nil {
					pan = true
				}
			}()
			fatal = x509.IsFatal(e)
		}()
		if pan {
			rn.w.Add(lib.Case{Coq: "(CPanic 99%N)", Input: gj, Impl: "panic", PropOK: false, Note: "IsFatal panics on " + gj, Tags: []string{"fn:IsFatal"}})
			continue
		}
		// direct oracle: nil and NonFatalErrors are non-fatal, *Errors iff a fatal entry, the rest fatal
		want := true
		switch x := e.(type) {
		case nil:
			want = false
		case x509.NonFatalErrors:
			want = false
		case *x509.Errors:
			want = false
			if x != nil {
				for _, y := range x.Errs {
					want = want || y.Fatal
				}
			}
		}
		rn.w.Add(lib.Case{Coq: fmt.Sprintf("(CFatal %s %s)", ge, lib.Bool(fatal)), Input: map[string]interface{}{"error": gj, "i": i}, Impl: fatal, PropOK: fatal == want,
			Note: fmt.Sprintf("IsFatal(%s) = %v", gj, fatal), Tags: []string{"fn:IsFatal", "err:" + strings.SplitN(gj, "(", 2)[0]}, Key: fmt.Sprintf("isfatal %d", i)})
	}
}

func kindFns(kind string) []int {
	switch kind {
	case "cert":
		return []int{fnCert, fnCerts}
	case "tbs":
		return []int{fnTBS}
	case "crl":
		return []int{fnList, fnListDER, fnCRL, fnDERCRL}
	case "pub":
		return []int{fnPKIX}
	case "pkcs1":
		return []int{fnPKCS1Priv}
	case "pkcs1pub":
		return []int{fnPKCS1Pub}
	case "pkcs8":
		return []int{fnPKCS8}
	case "ec":
		return []int{fnEC}
	case "csr":
		return []int{fnCSR}
	}
	return nil
}

func (rn *runner) mutate(b []byte, donors [][]byte) ([]byte, []string) {
	n := 1
	if rn.r.Intn(4) == 0 {
		n = 2 + rn.r.Intn(2)
	}
	cur := b
	var ops []string
	for i := 0; i < n; i++ {
		for try := 0; try < 6; try++ {
			m := mutations[rn.r.Intn(len(mutations))]
			if o := m.f(rn.r, cur, donors); o != nil {
				cur = o
				ops = append(ops, m.name)
				break
			}
		}
	}
	return cur, ops
}

func main() {
	flag.Parse()
	rn := &runner{w: lib.NewWriter(header, 400), r: lib.Rand()}
	defer rn.w.Guard()
	docs := loadPEMDocs()
	gd := generatedDocs()
	gd = append(gd, multiPrimeDocs()...)
	docs = append(docs, gd...)
	// certificates lacking optional fields, derived from a CA and a leaf donor
	var donors []*x509.Certificate
	for _, d := range gd {
		if d.src == "generated/inter" || d.src == "generated/rich" {
			if c, err := x509.ParseCertificate(d.der); err == nil {
				donors = append(donors, c)
			}
		}
	}
	bare, _ := bareDocs(donors)
	docs = append(docs, bare...)
	for _, d := range bare {
		rn.bare = append(rn.bare, d.der)
	}
	// documents with strings of every type in names, alternative names, qualifiers, attributes
	if len(donors) > 0 {
		docs = append(docs, stringDocs(donors[0])...)
	}
	// documents at the empty / boundary cardinalities of their lists, and sound ones holding every list (cardinality.go)
	var cardHand, cardSites []doc
	if len(donors) > 0 {
		cardHand, cardSites = cardinalityDocs(donors[0])
	}
	// TBS documents from the certificates
	var tbsDocs []doc
	for _, d := range docs {
		if d.kind == "cert" {
			if c, err := x509.ParseCertificate(d.der); c != nil && !x509.IsFatal(err) {
				tbsDocs = append(tbsDocs, doc{"tbs", d.src + "/tbs", c.RawTBSCertificate})
				if len(tbsDocs) >= 40 {
					break
				}
			}
		}
	}
	docs = append(docs, tbsDocs...)
	byKind := map[string][]doc{}
	for _, d := range docs {
		byKind[d.kind] = append(byKind[d.kind], d)
		rn.all = append(rn.all, d.der)
		if d.kind == "cert" {
			rn.certs = append(rn.certs, d.der)
		}
	}

	// 0. x509.IsFatal on hand-built errors of every dynamic type
	rn.isFatalCases()

	// 1. every well-formed document through its own parsers (must be accepted: a conforming
	//    encoder or OpenSSL produced them) and through every other parser (totality, coherence)
	for _, d := range docs {
		own := map[int]bool{}
		for _, fn := range kindFns(d.kind) {
			own[fn] = true
			r := rn.coh(fn, d.src, nil, d.der, "stream:wellformed", "kind:"+d.kind)
			if !r.has && r.panicked == "" && !r.hung && !strings.Contains(d.src, "expect-reject") {
				rn.w.Add(lib.Case{Coq: "(CConf false true)", Input: describe(d.src, nil, d.der, true), Impl: map[string]interface{}{"fn": parsers[fn].name, "err": fmt.Sprint(r.err)},
					PropOK: false, Note: fmt.Sprintf("%s rejects the well-formed %s %s: %v", parsers[fn].name, d.kind, d.src, r.err), Tags: []string{"stream:wellformed-rejected"}})
			}
		}
		switch d.kind {
		case "cert":
			rn.single(false, d.src, nil, d.der, "stream:wellformed")
			rn.many(d.src, nil, [][]byte{d.der}, true, "stream:wellformed")
		case "tbs":
			rn.single(true, d.src, nil, d.der, "stream:wellformed")
		case "crl":
			rn.strictCase(fnDERCRL, d.src, nil, d.der)
			rn.listCase(d.src, nil, d.der)
		case "pub":
			rn.strictCase(fnPKIX, d.src, nil, d.der)
		}
		if rn.r.Intn(3) == 0 {
			for fn := range parsers {
				if !own[fn] {
					rn.coh(fn, d.src, nil, d.der, "stream:cross-kind")
				}
			}
		}
	}

	// 2. structure-preserving mutations
	nmut := lib.Count(700, 9000)
	kinds := []string{"cert", "cert", "cert", "cert", "tbs", "crl", "crl", "pub", "pkcs1", "pkcs1pub", "pkcs8", "ec", "csr", "csr"}
	for i := 0; i < nmut; i++ {
		k := kinds[rn.r.Intn(len(kinds))]
		if len(byKind[k]) == 0 {
			continue
		}
		d := byKind[k][rn.r.Intn(len(byKind[k]))]
		donors := rn.all
		if rn.r.Intn(2) == 0 {
			donors = nil
			for _, x := range byKind[k] {
				donors = append(donors, x.der)
			}
		}
		b, ops := rn.mutate(d.der, donors)
		if len(ops) == 0 {
			continue
		}
		tag := "stream:mutation"
		for _, fn := range kindFns(k) {
			rn.coh(fn, d.src, ops, b, tag, "mut:"+ops[0], "kind:"+k)
		}
		// a mutant is also thrown at 3 other parsers
		for j := 0; j < 3; j++ {
			rn.coh(rn.r.Intn(len(parsers)), d.src, ops, b, "stream:mutation-cross")
		}
		switch k {
		case "cert":
			if i%2 == 0 {
				rn.single(false, d.src, ops, b, "stream:mutation")
				rn.many(d.src, ops, [][]byte{b}, false, "stream:mutation")
			}
		case "tbs":
			rn.single(true, d.src, ops, b, "stream:mutation")
		case "crl":
			rn.strictCase(fnDERCRL, d.src, ops, b)
			rn.listCase(d.src, ops, b)
		case "pub":
			rn.strictCase(fnPKIX, d.src, ops, b)
		}
	}

	// 3. random bytes and degenerate inputs, every parser
	var junk [][]byte
	junk = append(junk, nil, []byte{}, []byte{0x30}, []byte{0x30, 0x00}, []byte{0x30, 0x80}, []byte{0x30, 0x84, 0xff, 0xff, 0xff, 0xff},
		[]byte{0x30, 0x03, 0x02, 0x01}, []byte{0x05, 0x00}, []byte("-----BEGIN X509 CRL-----\n"), []byte("-----BEGIN X509 CRL-----\nMAA=\n-----END X509 CRL-----\n"),
		[]byte("-----BEGIN X509 CRL-----\n-----END X509 CRL-----\n"), []byte("-----BEGIN CERTIFICATE-----\nMAA=\n-----END CERTIFICATE-----\n"))
	for i := 0; i < lib.Count(60, 1500); i++ {
		n := rn.r.Intn(200)
		b := make([]byte, n)
		rn.r.Read(b)
		if n > 2 && rn.r.Intn(2) == 0 {
			b[0] = 0x30
			b[1] = byte(n - 2)
		}
		junk = append(junk, b)
	}
	for i, b := range junk {
		for fn := range parsers {
			rn.coh(fn, fmt.Sprintf("junk#%d", i), nil, b, "stream:junk")
		}
		if i < 40 {
			rn.single(false, fmt.Sprintf("junk#%d", i), nil, b, "stream:junk")
			rn.many(fmt.Sprintf("junk#%d", i), nil, [][]byte{b}, false, "stream:junk")
			rn.strictCase(fnDERCRL, fmt.Sprintf("junk#%d", i), nil, b)
			rn.listCase(fmt.Sprintf("junk#%d", i), nil, b)
		}
	}
	// PEM-wrapped CRLs through the sniffing front ends
	for _, d := range byKind["crl"] {
		p := pem.EncodeToMemory(&pem.Block{Type: "X509 CRL", Bytes: d.der})
		for _, fn := range []int{fnCRL, fnList} {
			r := rn.coh(fn, d.src+"/pem", nil, p, "stream:pem")
			if !r.has && r.panicked == "" {
				rn.w.Add(lib.Case{Coq: "(CConf false true)", Input: d.src, Impl: fmt.Sprint(r.err), PropOK: false, Note: parsers[fn].name + " rejects a PEM-wrapped well-formed CRL", Tags: []string{"stream:pem"}})
			}
		}
		q := pem.EncodeToMemory(&pem.Block{Type: "CERTIFICATE", Bytes: d.der})
		rn.coh(fnCRL, d.src+"/pem-wrong-type", nil, q, "stream:pem")
		rn.coh(fnList, d.src+"/pem-wrong-type", nil, append(p, 'x'), "stream:pem")
	}

	// 4. lax-only certificates and concatenations (iii)
	rn.concatStream()

	// 5. conformance (ii)
	rn.conformance()

	// 6. every string / time tag on every string-valued node, all length classes (strtag.go)
	rn.stringRetagStream(byKind)

	// 7. certificate lists with sound / non-fatally wrong / fatally wrong extension values at the
	//    entry level and at the list level, hand-encoded (crlext.go)
	rn.crlExtensionStream()

	// 8. empty / one-member / one-less / one-more at every list and constructed element: hand-written
	//    documents and a structural operator on every node of every document (cardinality.go)
	rn.cardinalityStream(byKind, cardHand, cardSites)

	// 9. the encodings of a private-key value (every curve x scalar class x octet form x container,
	//    against an independent reference) and leading padding of every primitive value of every key
	//    document (keyscalar.go)
	rn.keyValueStream(byKind)

	rn.w.Close()
	fmt.Printf("c11: %d cases\n", rn.w.Len())
}

// pieces for the concatenation stream: good, needs-lax (top level: serial; inner: subject
// string, extension OID), fatal-but-framed, and junk
func (rn *runner) piecePool() (good, lax, fatal [][]byte) {
	good = rn.certs
	for _, c := range rn.certs {
		for _, name := range []string{"lax:non-minimal-integer", "lax:printable-bad-char", "lax:empty-oid"} {
			for _, m := range mutations {
				if m.name != name {
					continue
				}
				for try := 0; try < 4; try++ {
					o := m.f(rn.r, c, nil)
					if o == nil {
						continue
					}
					r := guard(func() res { return parsers[fnCert].f(o) })
					if r.has && r.err != nil {
						lax = append(lax, o)
						break
					}
					if !r.has && r.panicked == "" {
						if t, ok := readTLV(o, 0); ok && t.end() == len(o) {
							fatal = append(fatal, o)
						}
					}
				}
			}
		}
		if len(lax) > 120 {
			break
		}
	}
	for i := 0; i < 60 && len(rn.certs) > 0; i++ {
		c := rn.certs[rn.r.Intn(len(rn.certs))]
		for _, name := range []string{"retag", "flip-bit", "empty-content", "delete-tlv"} {
			for _, m := range mutations {
				if m.name == name {
					if o := m.f(rn.r, c, nil); o != nil {
						if t, ok := readTLV(o, 0); ok && t.end() == len(o) {
							if r := guard(func() res { return parsers[fnCert].f(o) }); !r.has && r.panicked == "" {
								fatal = append(fatal, o)
							}
						}
					}
				}
			}
		}
	}
	return
}

func (rn *runner) concatStream() {
	good, lax, fatal := rn.piecePool()
	pick := func(pool [][]byte) []byte { return pool[rn.r.Intn(len(pool))] }
	// every lax-only certificate alone through both entry points
	for i, l := range lax {
		if i >= lib.Count(25, 120) {
			break
		}
		src := fmt.Sprintf("lax-only#%d", i)
		rn.coh(fnCert, src, nil, l, "stream:lax-only")
		rn.single(false, src, nil, l, "stream:lax-only")
		rn.many(src, []string{"alone"}, [][]byte{l}, true, "stream:lax-only", "concat:lax-alone")
		if len(good) > 0 {
			rn.many(src, []string{"good||lax"}, [][]byte{pick(good), l}, true, "stream:lax-only", "concat:good-then-lax")
			rn.many(src, []string{"lax||good"}, [][]byte{l, pick(good)}, true, "stream:lax-only", "concat:lax-then-good")
		}
	}
	if len(good) == 0 {
		return
	}
	// a certificate lacking optional fields before, after and between certificates that have them
	for i, b := range rn.bare {
		src := fmt.Sprintf("bare#%d", i)
		rn.many(src, []string{"bare"}, [][]byte{b}, true, "stream:bare", "concat:bare-alone")
		for j := 0; j < lib.Count(3, 12); j++ {
			g, g2 := pick(good), pick(good)
			rn.many(src, []string{"good||bare"}, [][]byte{g, b}, true, "stream:bare", "concat:good-then-bare")
			rn.many(src, []string{"bare||good"}, [][]byte{b, g}, true, "stream:bare", "concat:bare-then-good")
			rn.many(src, []string{"good||bare||good"}, [][]byte{g, b, g2}, true, "stream:bare", "concat:good-bare-good")
			rn.many(src, []string{"bare||bare'"}, [][]byte{pick(rn.bare), b}, true, "stream:bare", "concat:bare-then-bare")
		}
	}
	for i := 0; i < lib.Count(120, 1500); i++ {
		k := 1 + rn.r.Intn(4)
		var pieces [][]byte
		var desc []string
		framed := true
		for j := 0; j < k; j++ {
			switch x := rn.r.Intn(10); {
			case x < 5:
				pieces, desc = append(pieces, pick(good)), append(desc, "good")
			case x < 7 && len(lax) > 0:
				pieces, desc = append(pieces, pick(lax)), append(desc, "lax")
			case x < 9 && len(fatal) > 0:
				pieces, desc = append(pieces, pick(fatal)), append(desc, "fatal")
			default:
				c := pick(good)
				switch rn.r.Intn(3) {
				case 0:
					pieces, desc = append(pieces, c[:1+rn.r.Intn(len(c)-1)]), append(desc, "truncated")
				case 1:
					pieces, desc = append(pieces, []byte{0x05, 0x00}), append(desc, "null")
				default:
					pieces, desc = append(pieces, []byte{0}), append(desc, "zero-byte")
				}
				framed = false
			}
		}
		rn.many(fmt.Sprintf("concat#%d", i), desc, pieces, framed, "stream:concat", "concat:"+strings.Join(desc, "+"))
		if i%4 == 0 {
			var b []byte
			for _, p := range pieces {
				b = append(b, p...)
			}
			rn.single(false, fmt.Sprintf("concat#%d", i), desc, b, "stream:concat") // ParseCertificate on a concatenation: trailing data
			rn.coh(fnCerts, fmt.Sprintf("concat#%d", i), desc, b, "stream:concat")
		}
	}
}
