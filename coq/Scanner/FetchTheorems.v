(* C16: the property statements assembled from the invariants (Props/C16.v restates them). *)
From Coq Require Import ZArith Bool List Lia Permutation.
From V Require Import Base.GoInt gen.Fetcher Scanner.FetchLib Scanner.FetchModel Scanner.FetchArith
  Scanner.FetchWorker Scanner.FetchProofs Scanner.FetchBytes Scanner.ScanProofs.
Import ListNotations.
Open Scope Z_scope.

Definition sized {entry} (s : state entry) (l : label entry) : Prop := resp_sized s l /\ sizes_ok s l.
Definition honest {entry} (lg : Z -> entry) (s : state entry) (l : label entry) : Prop :=
  resp_honest lg s l /\ sizes_ok s l.

(* the standing assumptions on a configuration *)
Definition cfg_ok (cfg : config) (end0 : Z) : Prop :=
  0 <= c_start cfg /\ end0 <= max_i64 /\ 1 <= c_batch cfg <= max_i64 /\ (1 <= c_workers cfg)%nat
  /\ (c_variant cfg = Fixed \/ c_start cfg <= end0).

Section T.
Context {entry : Type}.
Notation state := (state entry).
Notation label := (label entry).

Lemma inv_of cfg end0 tr (s : state) :
  cfg_ok cfg end0 -> run cfg (init cfg end0) tr = Some s -> conforms sized cfg (init cfg end0) tr ->
  Inv cfg end0 s.
Proof. intros (A & B & C & D & E) R Cf. eapply reachable_inv; eauto. Qed.

Lemma honest_sized (lg : Z -> entry) cfg : forall tr (s : state),
  conforms (honest lg) cfg s tr -> conforms sized cfg s tr.
Proof. apply conforms_impl. intros s l H. apply (good_good0 lg). exact H. Qed.

Theorem exactly_once_lemma' cfg end0 tr (s : state) :
  cfg_ok cfg end0 -> run cfg (init cfg end0) tr = Some s -> conforms sized cfg (init cfg end0) tr ->
  terminal s = true -> stopped s = false ->
  Permutation (map fst (delivered s)) (zrange (c_start cfg) end0).
Proof.
  intros Ok R Cf T S. pose proof (inv_of _ _ _ _ Ok R Cf) as I. destruct Ok as (A & B & C & D & E).
  apply (exactly_once_lemma cfg end0 s I D T S).
Qed.

Theorem bytes_lemma (lg : Z -> entry) cfg end0 tr (s : state) :
  cfg_ok cfg end0 -> run cfg (init cfg end0) tr = Some s -> conforms (honest lg) cfg (init cfg end0) tr ->
  terminal s = true ->
  Permutation (batches s) (answers s)
  /\ Forall (fun ie => snd ie = lg (fst ie)) (delivered s)
  /\ (stopped s = false -> Permutation (delivered s) (map (fun i => (i, lg i)) (zrange (c_start cfg) end0))).
Proof.
  intros Ok R Cf T. pose proof (honest_sized lg cfg _ _ Cf) as Cs.
  pose proof (inv_of _ _ _ _ Ok R Cs) as I.
  pose proof (run_binv lg cfg tr _ _ (init_binv lg cfg end0) Cf R) as [B _].
  split; [apply (answers_delivered_lemma cfg end0 s I T)|]. split; [exact B|].
  intros S. apply delivered_pairs; [exact B|]. eapply exactly_once_lemma'; eauto.
Qed.

Theorem always_lemma' cfg end0 tr (s : state) :
  cfg_ok cfg end0 -> run cfg (init cfg end0) tr = Some s -> conforms sized cfg (init cfg end0) tr ->
  NoDup (map fst (delivered s) ++ flat_map pend (ws s))
  /\ (forall i, In i (map fst (delivered s)) -> c_start cfg <= i < g_cur s)
  /\ (cancelled s = false ->
      Permutation (map fst (delivered s) ++ flat_map pend (ws s)) (zrange (c_start cfg) (g_cur s)))
  /\ (g_cur s <= g_end s \/ g_cur s = c_start cfg)
  /\ (terminal s = true -> cancelled s = false ->
      Permutation (map fst (delivered s)) (zrange (c_start cfg) (g_cur s))).
Proof.
  intros Ok R Cf. pose proof (inv_of _ _ _ _ Ok R Cf) as I.
  destruct (always_lemma cfg end0 s I) as (A & B & C & D).
  split; [exact A|]. split; [exact B|]. split; [exact C|]. split; [exact D|].
  intros T Cn. apply (stop_prefix_lemma cfg end0 s I T Cn).
Qed.

(* a run never contains an adoption step in non-continuous mode *)
Lemma run_no_accept cfg end0 : cfg_ok cfg end0 -> c_cont cfg = false ->
  forall tr (s s' : state), Inv cfg end0 s -> conforms sized cfg s tr -> run cfg s tr = Some s' ->
  Forall (fun l : label => match l with LAccept _ => False | _ => True end) tr.
Proof.
  intros (A & B & C & D & E) Nc. induction tr as [|l tr IH]; intros s s' I Cf R; [constructor|].
  cbn in R, Cf. destruct Cf as [G Cf]. destruct (step cfg s l) as [s1|] eqn:St; [|discriminate].
  constructor.
  - destruct l; auto. rewrite (no_accept_noncont cfg end0 E s n I Nc) in St. discriminate.
  - eapply IH; [eapply step_inv; eauto | exact Cf | exact R].
Qed.

Lemma measure_init cfg end0 :
  measure (@init entry cfg end0) = 4 * Z.max 0 (end0 - c_start cfg) + 1 + Z.of_nat (c_workers cfg).
Proof.
  unfold measure, init; cbn [g_end g_cur g_alive ws].
  assert (forall n, fold_right Z.add 0 (map (@wmeasure entry) (repeat WIdle n)) = Z.of_nat n) as H.
  { induction n; [reflexivity|]. cbn [repeat map fold_right wmeasure]. rewrite IHn. lia. }
  rewrite H. lia.
Qed.

Theorem terminates_lemma (lg : Z -> entry) cfg end0 tr (s : state) :
  cfg_ok cfg end0 -> c_cont cfg = false ->
  run cfg (init cfg end0) tr = Some s -> conforms sized cfg (init cfg end0) tr ->
  count_productive tr <= 4 * Z.max 0 (end0 - c_start cfg) + 1 + Z.of_nat (c_workers cfg)
  /\ (terminal s = false -> exists l s', productive l = true /\ sized s l /\ step cfg s l = Some s').
Proof.
  intros Ok Nc R Cf. pose proof Ok as (A & B & C & D & E).
  pose proof (@init_inv entry cfg end0 B E) as I0.
  pose proof (inv_of _ _ _ _ Ok R Cf) as I.
  split.
  - pose proof (run_no_accept cfg end0 Ok Nc tr _ _ I0 Cf R) as NA.
    pose proof (bounded_run cfg end0 A C E tr _ _ I0 Cf R NA) as Bd.
    pose proof (measure_nonneg cfg end0 s I). rewrite measure_init in Bd. lia.
  - intros T. destruct (progress_lemma cfg end0 E lg s I T) as [H|(_ & Hc & _)]; [exact H | congruence].
Qed.

Theorem stop_lemma (lg : Z -> entry) cfg end0 tr (s : state) :
  cfg_ok cfg end0 -> run cfg (init cfg end0) tr = Some s -> conforms sized cfg (init cfg end0) tr ->
  (* the generator can return as soon as Stop has been called *)
  (stopped s = true -> g_alive s = true -> exists s', step cfg s LGenExit = Some s')
  (* once it has: at most [measure s] productive steps remain, and one is enabled until Run returns *)
  /\ (g_alive s = false -> forall tr' s', run cfg s tr' = Some s' -> conforms sized cfg s tr' ->
        count_productive tr' <= measure s
        /\ (terminal s' = false -> exists l s'', productive l = true /\ sized s' l /\ step cfg s' l = Some s''))
  (* and when Run returns without cancellation, exactly the prefix [StartIndex, cursor) was delivered *)
  /\ (terminal s = true -> cancelled s = false ->
        Permutation (map fst (delivered s)) (zrange (c_start cfg) (g_cur s))
        /\ (g_cur s <= g_end s \/ g_cur s = c_start cfg)).
Proof.
  intros Ok R Cf. pose proof Ok as (A & B & C & D & E).
  pose proof (inv_of _ _ _ _ Ok R Cf) as I.
  split; [|split].
  - intros S Al. cbn [step]. rewrite Al, S. rewrite orb_true_r. cbn. eexists. reflexivity.
  - intros Al tr' s' R' Cf'.
    assert (forall tr' (s1 s2 : state), Inv cfg end0 s1 -> g_alive s1 = false -> conforms sized cfg s1 tr' ->
              run cfg s1 tr' = Some s2 ->
              Forall (fun l : label => match l with LAccept _ => False | _ => True end) tr' /\ g_alive s2 = false) as NA.
    { clear - A C E. induction tr' as [|l tr' IH]; intros s1 s2 I1 Al1 Cf1 R1.
      - cbn in R1. inversion R1; subst. split; [constructor | exact Al1].
      - cbn in R1, Cf1. destruct Cf1 as [G Cf1]. destruct (step cfg s1 l) as [sm|] eqn:St; [|discriminate].
        assert (g_alive sm = false /\ match l with LAccept _ => False | _ => True end) as [Alm Hl].
        { destruct l as [w|n| |w r|w|w| |]; cbn [step] in St; rewrite ?Al1 in St; cbn [andb] in St; try discriminate;
          repeat match type of St with
          | context [nth_error ?l ?w] => destruct (nth_error l w) as [[| | |]|]; try discriminate
          | context [match ?r with RErr => _ | ROk _ => _ end] => destruct r
          | context [if cancelled ?s then _ else _] => destruct (cancelled s); try discriminate
          end; inversion St; subst; cbn; auto. }
        assert (Inv cfg end0 sm) as Im by (eapply step_inv; eauto).
        destruct (IH sm s2 Im Alm Cf1 R1) as [F Al2].
        split; [constructor; assumption | exact Al2]. }
    destruct (NA tr' s s' I Al Cf' R') as [F Al'].
    pose proof (run_inv cfg end0 A C E tr' s s' I Cf' R') as I'.
    split.
    + pose proof (bounded_run cfg end0 A C E tr' s s' I Cf' R' F) as Bd.
      pose proof (measure_nonneg cfg end0 s' I'). lia.
    + intros T. destruct (progress_lemma cfg end0 E lg s' I' T) as [H|(Hc & _)]; [exact H | congruence].
  - intros T Cn. apply (stop_prefix_lemma cfg end0 s I T Cn).
Qed.

Theorem continuous_lemma cfg end0 tr (s : state) :
  cfg_ok cfg end0 -> run cfg (init cfg end0) tr = Some s -> conforms sized cfg (init cfg end0) tr ->
  (* a bigger announced tree can always be adopted by a waiting generator, whatever its size *)
  (g_alive s = true -> c_cont cfg = true -> g_end s <= g_cur s ->
     forall n, n > g_end s -> exists s', step cfg s (LAccept n) = Some s' /\ g_end s' = n /\ g_cur s' = g_cur s)
  (* and the next range is handed to any idle worker as soon as there is one *)
  /\ (g_alive s = true -> g_cur s < g_end s ->
     forall w, nth_error (ws s) w = Some WIdle ->
       exists s', step cfg s (LTake w) = Some s' /\ g_cur s < g_cur s' <= g_end s
                  /\ nth_error (ws s') w = Some (WBusy (g_cur s) (g_cur s' - 1))).
Proof.
  intros Ok R Cf. pose proof Ok as (A & B & C & D & E).
  pose proof (inv_of _ _ _ _ Ok R Cf) as I.
  split.
  - intros Al Hc Hw n Hn. cbn [step]. unfold loop_on. rewrite Al, Hc, orb_true_r. cbn [andb].
    assert (wait_cond (c_variant cfg) (g_cur s) (g_end s) = true) as W.
    { destruct (c_variant cfg) eqn:V; cbn.
      - destruct (i_cur cfg end0 s I) as [H|[H _]]; [|congruence]. apply Z.eqb_eq. lia.
      - apply Z.geb_le. lia. }
    rewrite W. destruct (Z.gtb_spec n (g_end s)); [|lia]. eexists. split; [reflexivity|]. split; reflexivity.
  - intros Al Hlt w Nw. cbn [step]. unfold loop_on. rewrite Al. destruct (Z.ltb_spec (g_cur s) (g_end s)); [|lia]. cbn [orb andb].
    assert (wait_cond (c_variant cfg) (g_cur s) (g_end s) = false) as W.
    { destruct (c_variant cfg); cbn; [apply Z.eqb_neq; lia | destruct (Z.geb_spec (g_cur s) (g_end s)); [lia | reflexivity]]. }
    rewrite W, Nw. cbn [negb].
    pose proof (batch_end_lt (g_cur s) (g_end s) (c_batch cfg) ltac:(pose proof (i_cur0 cfg end0 s I); lia) Hlt (i_endmax cfg end0 s I) C) as (Hbe & Hk & _).
    eexists. split; [reflexivity|]. cbn [g_cur ws]. split; [exact Hbe|].
    rewrite (nth_error_upd_same _ _ _ _ Nw). unfold norm.
    destruct (Z.leb_spec (g_cur s) (batch_end (g_cur s) (g_end s) (c_batch cfg) - 1)); [reflexivity | lia].
Qed.

End T.

Section S.
Context {entry : Type}.
Variable classify : entry -> eclass.
Variable matches : entry -> bool.

Theorem scan_lemma (lg : Z -> entry) cfg mk po end0 tr (s : sstate entry) :
  cfg_ok cfg end0 ->
  srun classify matches cfg mk po (sinit cfg end0) tr = Some s ->
  conforms (honest lg) cfg (init cfg end0) (fetch_labels tr) ->
  sterminal s = true ->
  (* every delivered entry was processed exactly once; the callbacks are exactly the selected ones *)
  Permutation (found s) (flat_map (found_of classify matches (c_svariant cfg) mk po) (delivered (fs s)))
  /\ processed s = Z.of_nat (length (delivered (fs s)))
  /\ (stopped (fs s) = false ->
      Permutation (found s)
        (flat_map (found_of classify matches (c_svariant cfg) mk po)
                  (map (fun i => (i, lg i)) (zrange (c_start cfg) end0)))
      /\ processed s = Z.max 0 (end0 - c_start cfg)).
Proof.
  intros Ok R Cf T.
  pose proof (srun_sinv classify matches cfg mk po tr _ _ (sinit_sinv classify matches cfg mk po end0) R) as SI.
  destruct (sterminal_found classify matches cfg mk po s SI T) as [F P].
  split; [exact F|]. split; [exact P|]. intros St.
  pose proof (srun_fetch classify matches cfg mk po tr _ _ R) as Rf. cbn [sinit fs] in Rf.
  assert (terminal (fs s) = true) as Tf by (unfold sterminal in T; apply andb_true_iff in T; tauto).
  destruct (bytes_lemma lg cfg end0 _ _ Ok Rf Cf Tf) as (_ & _ & D). specialize (D St).
  split.
  - rewrite F. apply Permutation_flat_map. exact D.
  - rewrite P. rewrite (Permutation_length D), map_length. unfold zrange. rewrite zseq_length. lia.
Qed.

End S.
