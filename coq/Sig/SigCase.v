(* Correspondence cases for C05: observed behaviour of tls.VerifySignature, asn1.Unmarshal on
   the signature value, ct.NewSignatureVerifier, ct.SerializeSCT/STHSignatureInput,
   SignatureVerifier.VerifySCTSignature / VerifySTHSignature, ctutil.VerifySCT and
   loglist3.NewFromSignedJSON.  The primitive oracles of the model are instantiated per case
   from a table the harness filled by calling the Go standard library directly (hash
   functions, rsa.VerifyPKCS1v15, ecdsa.Verify, dsa.Verify, encoding/json). *)
From Coq Require Import NArith ZArith List Bool.
From Coq.Strings Require Import Byte.
From V Require Import Base.Bytes Base.CaseLib Sig.SigModel.
From Coq Require Uint63.
Import ListNotations.

(* compact byte-string literals for the (long, repetitive) history cases: seven octets per
   primitive 63-bit integer, big-endian, then a tail of fewer than seven octets.  A primitive
   integer literal is one node for Coq's front end, a string literal ten per character. *)
Fixpoint octets_le (w : nat) (x : N) : bytes :=
  match w with O => [] | S w' => n2b (N.land x 255) :: octets_le w' (N.shiftr x 8) end.
Definition w7 (x : Uint63.int) : bytes := rev (octets_le 7 (Z.to_N (Uint63.to_Z x)))   (* = be_enc 7 *).
Fixpoint wbytes (ws : list Uint63.int) : bytes :=
  match ws with [] => [] | w :: r => w7 w ++ wbytes r end.
Definition wb (ws : list Uint63.int) (tail : bytes) : bytes := wbytes ws ++ tail.
(* a non-negative integer from its big-endian octets *)
Definition zb (b : bytes) : Z := Z.of_N (be_dec b).

Inductive outcome := OOk | OErr | OPanic.
Definition outcome_of {A} (r : res A) : outcome :=
  match r with Ok _ => OOk | Err => OErr | Panic => OPanic end.
Definition outcome_eqb (a b : outcome) : bool :=
  match a, b with OOk, OOk | OErr, OErr | OPanic, OPanic => true | _, _ => false end.

(* What the harness measured with the standard library for THIS case's key, message and
   signature bytes.  [o_msg = None]: the digests are of the case's own message argument. *)
Record oracle := {
  o_msg : option bytes;                        (* the message the digests below are of *)
  o_digests : list (Z * bytes);                (* crypto.Hash id, digest of the message *)
  o_rsa : list (Z * bool);                     (* hash id -> rsa.VerifyPKCS1v15(key, hash, that digest, the case's signature) == nil *)
  o_rs : option (Z * Z * list (Z * bool));     (* (r, s) read from the case's signature by the harness's X.690 reader;
                                                  hash id -> ecdsa.Verify / dsa.Verify(key, that digest, r, s) *)
  o_json : bool                                (* json.Unmarshal(message, &LogList) == nil *)
}.
Definition no_oracle : oracle := {| o_msg := None; o_digests := []; o_rsa := []; o_rs := None; o_json := false |}.

Definition lookup_digest (o : oracle) (ht : Z) : option bytes :=
  match find (fun e => Z.eqb (fst e) ht) (o_digests o) with Some e => Some (snd e) | None => None end.
Definition lookup_flag (tbl : list (Z * bool)) (ht : Z) : bool :=
  match find (fun e => Z.eqb (fst e) ht) tbl with Some e => snd e | None => false end.
Definition is_digest (o : oracle) (ht : Z) (dg : bytes) : bool :=
  match lookup_digest o ht with Some d => bytes_eqb dg d | None => false end.

(* msg0 / sig0: the case's own message and signature bytes *)
Definition digest_of (o : oracle) (msg0 : bytes) (ht : Z) (m : bytes) : bytes :=
  if bytes_eqb m (match o_msg o with Some x => x | None => msg0 end) then
    match lookup_digest o ht with Some d => d | None => [] end
  else [].
Definition rsa_of (o : oracle) (sig0 : bytes) (_ : key) (ht : Z) (dg sig : bytes) : bool :=
  bytes_eqb sig sig0 && is_digest o ht dg && lookup_flag (o_rsa o) ht.
Definition rs_of (o : oracle) (_ : key) (dg : bytes) (r s : Z) : bool :=
  match o_rs o with
  | Some (r0, s0, tbl) => Z.eqb r r0 && Z.eqb s s0 && existsb (fun e => snd e && is_digest o (fst e) dg) tbl
  | None => false
  end.
Definition json_of (o : oracle) (msg0 : bytes) (m : bytes) : bool := bytes_eqb m msg0 && o_json o.

Definition m_verify o msg0 sig0 := verify (digest_of o msg0) (rsa_of o sig0) (rs_of o) (rs_of o).
Definition m_verify_sct o sig0 := verify_sct (digest_of o []) (rsa_of o sig0) (rs_of o) (rs_of o).
Definition m_verify_sth o sig0 := verify_sth (digest_of o []) (rsa_of o sig0) (rs_of o) (rs_of o).
Definition m_util o sig0 := util_verify_sct (digest_of o []) (rsa_of o sig0) (rs_of o) (rs_of o).
Definition m_json o msg0 sig0 := new_from_signed_json (digest_of o msg0) (rsa_of o sig0) (rs_of o) (rs_of o) (json_of o msg0).

(* ---- histories on one verifier object.  [calls]: the distinct calls of the history, each with what
   the harness measured with the standard library for THAT call's (message, signature) under the
   object's key - present only where a primitive accepted; a (digest, signature) pair no table
   lists is one the primitive refused, as everywhere in this file.  [steps]: the history itself,
   each step the index of its call and the observed outcome (None: the call verifies no
   signature, nothing to compare).  The primitives of the model are instantiated ONCE for the
   whole history from the union of the tables - a primitive is a function of (key, digest,
   signature), not of the position in the history. *)
Record hcall := { h_op : vop; h_oracle : oracle }.
Definition hcall_none : hcall := {| h_op := OpTouch None; h_oracle := no_oracle |}.

Definition op_sig (op : vop) : bytes :=
  match op with
  | OpVerify _ sg => ds_sig sg
  | OpSct s _ | OpUtil s _ => ds_sig (sct_sig s)
  | OpSth s => ds_sig (sth_sig s)
  | OpJson _ raw => raw
  | OpTouch _ => []
  end.
Definition o_message (o : oracle) : bytes := match o_msg o with Some x => x | None => [] end.
Definition has_digest (o : oracle) (ht : Z) : bool :=
  match lookup_digest o ht with Some _ => true | None => false end.
Definition digest_many (hs : list hcall) (ht : Z) (m : bytes) : bytes :=
  match find (fun h => has_digest (h_oracle h) ht && bytes_eqb m (o_message (h_oracle h))) hs with
  | Some h => match lookup_digest (h_oracle h) ht with Some d => d | None => [] end
  | None => []
  end.
Definition rsa_many (hs : list hcall) (k : key) (ht : Z) (dg sig : bytes) : bool :=
  existsb (fun h => match o_rsa (h_oracle h) with
                    | [] => false                          (* nothing measured: skip the comparison of the signatures *)
                    | _ => rsa_of (h_oracle h) (op_sig (h_op h)) k ht dg sig
                    end) hs.
Definition rs_many (hs : list hcall) (k : key) (dg : bytes) (r s : Z) : bool :=
  existsb (fun h => rs_of (h_oracle h) k dg r s) hs.
Definition json_many (hs : list hcall) (m : bytes) : bool :=
  existsb (fun h => json_of (h_oracle h) (o_message (h_oracle h)) m) hs.
Definition hist_ops (calls : list hcall) (steps : list (N * option outcome)) : list vop :=
  map (fun s => h_op (nth (N.to_nat (fst s)) calls hcall_none)) steps.
Definition m_hist (k : key) (calls : list hcall) (steps : list (N * option outcome)) : list (option outcome) :=
  map (option_map outcome_of)
      (run_history (digest_many calls) (rsa_many calls) (rs_many calls) (rs_many calls) (json_many calls)
                   {| vs_key := k; vs_last := None |} (hist_ops calls steps)).
(* positions (from 0) at which the model and the observation differ *)
Fixpoint hist_diffs (i : N) (ms os : list (option outcome)) : list N :=
  match ms, os with
  | m :: ms', o :: os' => (if opt_eqb outcome_eqb m o then [] else [i]) ++ hist_diffs (i + 1) ms' os'
  | [], [] => []
  | _, _ => [i]
  end.

Inductive code_sweep := HashCodes (a : N) | SigCodes (h : N).
Definition codes256 : list N := map N.of_nat (seq 0 256).
Definition sweep_pairs (w : code_sweep) : list (N * N) :=
  match w with
  | HashCodes a => map (fun h => (h, a)) codes256
  | SigCodes h => map (fun a => (h, a)) codes256
  end.

Inductive case :=
| CVerify (k : key) (data : bytes) (sg : dsig) (o : oracle) (obs : outcome)
| CDer (sig : bytes) (obs : option (Z * Z * N))          (* R, S, len(rest) *)
| CNewVerifier (allow : bool) (k : key) (obs : outcome)
| CSctInput (s : sct) (e : tentry) (obs : res bytes)
| CSthInput (s : sth) (obs : res bytes)
| CSct (k : key) (s : sct) (e : tentry) (o : oracle) (obs : outcome)
| CSth (k : key) (s : sth) (o : oracle) (obs : outcome)
| CUtil (allow : bool) (k : key) (s : sct) (e : tentry) (o : oracle) (obs : outcome)
| CJson (k : key) (data raw : bytes) (o : oracle) (obs : outcome)
(* sweeps over the declared algorithm codes: ONE key, message (signed object) and signature value,
   presented under all 256 hash codes with a fixed signature code, or all 256 signature codes with
   a fixed hash code; observed: the (hash, sigalg) pairs that were accepted resp. panicked, every
   other pair of the sweep returned an error *)
| CVerifyCodes (k : key) (data sig : bytes) (o : oracle) (w : code_sweep) (oks panics : list (N * N))
| CSctCodes (k : key) (s : sct) (e : tentry) (o : oracle) (w : code_sweep) (oks panics : list (N * N))
| CSthCodes (k : key) (s : sth) (o : oracle) (w : code_sweep) (oks panics : list (N * N))
(* tls.CreateSignature: dynamic type of the private key, hash code asked for, whether the
   standard library's signing primitive succeeds for that key and hash (measured directly),
   observed result: the (hash, signature) codes the returned DigitallySigned declares *)
| CCreate (pk : privkind) (h : N) (sign_ok : bool) (obs : res (N * N))
(* a history of calls on ONE verifier object built with key k (ct.SignatureVerifier, ctutil.LogInfo,
   or the package's functions called with k) *)
| CHist (k : key) (calls : list hcall) (steps : list (N * option outcome)).

Definition der_view (sig : bytes) : option (Z * Z * N) :=
  match der_rs sig with Some (r, s, rest) => Some (r, s, N.of_nat (length rest)) | None => None end.
Definition der_view_eqb (a b : Z * Z * N) : bool :=
  match a, b with (r, s, n), (r', s', n') => Z.eqb r r' && Z.eqb s s' && N.eqb n n' end.

Definition res_bytes_eqb (a b : res bytes) : bool :=
  match a, b with
  | Ok x, Ok y => bytes_eqb x y
  | Err, Err | Panic, Panic => true
  | _, _ => false
  end.

Definition res_codes_eqb (a b : res (N * N)) : bool :=
  match a, b with
  | Ok (h, g), Ok (h', g') => N.eqb h h' && N.eqb g g'
  | Err, Err | Panic, Panic => true
  | _, _ => false
  end.

(* the same signed object declaring other algorithm codes *)
Definition with_codes (d : dsig) (h a : N) : dsig := {| ds_hash := h; ds_alg := a; ds_sig := ds_sig d |}.
Definition sct_with_codes (s : sct) (h a : N) : sct :=
  {| sct_version := sct_version s; sct_logid := sct_logid s; sct_ts := sct_ts s; sct_ext := sct_ext s;
     sct_sig := with_codes (sct_sig s) h a |}.
Definition sth_with_codes (s : sth) (h a : N) : sth :=
  {| sth_version := sth_version s; sth_size := sth_size s; sth_ts := sth_ts s; sth_root := sth_root s;
     sth_sig := with_codes (sth_sig s) h a |}.
Definition pair_in (p : N * N) (l : list (N * N)) : bool :=
  existsb (fun q => N.eqb (fst p) (fst q) && N.eqb (snd p) (snd q)) l.
Definition observed_at (oks panics : list (N * N)) (p : N * N) : outcome :=
  if pair_in p oks then OOk else if pair_in p panics then OPanic else OErr.
Definition sweep_agrees (f : N -> N -> outcome) (w : code_sweep) (oks panics : list (N * N)) : bool :=
  forallb (fun p => outcome_eqb (f (fst p) (snd p)) (observed_at oks panics p)) (sweep_pairs w).
(* the first pair on which the model differs from the observation, and what the model says there *)
Definition first_disagreement (f : N -> N -> outcome) (w : code_sweep) (oks panics : list (N * N)) : option outcome :=
  match find (fun p => negb (outcome_eqb (f (fst p) (snd p)) (observed_at oks panics p))) (sweep_pairs w) with
  | Some p => Some (f (fst p) (snd p))
  | None => None
  end.
Definition mo_verify k data sig o (h a : N) : outcome :=
  outcome_of (m_verify o data sig k data {| ds_hash := h; ds_alg := a; ds_sig := sig |}).
Definition mo_sct k s e o (h a : N) : outcome :=
  outcome_of (m_verify_sct o (ds_sig (sct_sig s)) k (sct_with_codes s h a) e).
Definition mo_sth k s o (h a : N) : outcome :=
  outcome_of (m_verify_sth o (ds_sig (sth_sig s)) k (sth_with_codes s h a)).

Definition check (c : case) : bool :=
  match c with
  | CVerify k data sg o obs => outcome_eqb (outcome_of (m_verify o data (ds_sig sg) k data sg)) obs
  | CDer sig obs => opt_eqb der_view_eqb (der_view sig) obs
  | CNewVerifier allow k obs => outcome_eqb (outcome_of (new_verifier allow k)) obs
  | CSctInput s e obs => res_bytes_eqb (sct_siginput s e) obs
  | CSthInput s obs => res_bytes_eqb (sth_siginput s) obs
  | CSct k s e o obs => outcome_eqb (outcome_of (m_verify_sct o (ds_sig (sct_sig s)) k s e)) obs
  | CSth k s o obs => outcome_eqb (outcome_of (m_verify_sth o (ds_sig (sth_sig s)) k s)) obs
  | CUtil allow k s e o obs => outcome_eqb (outcome_of (m_util o (ds_sig (sct_sig s)) allow k s e)) obs
  | CJson k data raw o obs => outcome_eqb (outcome_of (fst (m_json o data raw k data raw))) obs
  | CVerifyCodes k data sig o w oks panics => sweep_agrees (mo_verify k data sig o) w oks panics
  | CSctCodes k s e o w oks panics => sweep_agrees (mo_sct k s e o) w oks panics
  | CSthCodes k s o w oks panics => sweep_agrees (mo_sth k s o) w oks panics
  | CCreate pk h sign_ok obs => res_codes_eqb (create_signature sign_ok pk h) obs
  | CHist k cs ss => match hist_diffs 0 (m_hist k cs ss) (map snd ss) with [] => true | _ => false end
  end.

(* what the model computes: (outcome, DER view, signature input, JSON trace, history) *)
(* ...; for a history: the steps at which model and observation differ, and the model's answers *)
Definition explain (c : case) : option outcome * option (option (Z * Z * N)) * option (res bytes) * option (list jstep)
                              * option (list N * list (option outcome)) :=
  match c with
  | CVerify k data sg o _ => (Some (outcome_of (m_verify o data (ds_sig sg) k data sg)), Some (der_view (ds_sig sg)), None, None, None)
  | CDer sig _ => (None, Some (der_view sig), None, None, None)
  | CNewVerifier allow k _ => (Some (outcome_of (new_verifier allow k)), None, None, None, None)
  | CSctInput s e _ => (None, None, Some (sct_siginput s e), None, None)
  | CSthInput s _ => (None, None, Some (sth_siginput s), None, None)
  | CSct k s e o _ => (Some (outcome_of (m_verify_sct o (ds_sig (sct_sig s)) k s e)), Some (der_view (ds_sig (sct_sig s))), Some (sct_siginput s e), None, None)
  | CSth k s o _ => (Some (outcome_of (m_verify_sth o (ds_sig (sth_sig s)) k s)), Some (der_view (ds_sig (sth_sig s))), Some (sth_siginput s), None, None)
  | CUtil allow k s e o _ => (Some (outcome_of (m_util o (ds_sig (sct_sig s)) allow k s e)), None, Some (sct_siginput s e), None, None)
  | CJson k data raw o _ => (Some (outcome_of (fst (m_json o data raw k data raw))), Some (der_view raw), None, Some (snd (m_json o data raw k data raw)), None)
  | CVerifyCodes k data sig o w oks panics => (first_disagreement (mo_verify k data sig o) w oks panics, Some (der_view sig), None, None, None)
  | CSctCodes k s e o w oks panics => (first_disagreement (mo_sct k s e o) w oks panics, Some (der_view (ds_sig (sct_sig s))), Some (sct_siginput s e), None, None)
  | CSthCodes k s o w oks panics => (first_disagreement (mo_sth k s o) w oks panics, Some (der_view (ds_sig (sth_sig s))), Some (sth_siginput s), None, None)
  | CCreate pk h sign_ok _ => (Some (outcome_of (create_signature sign_ok pk h)), None, None, None, None)
  | CHist k cs ss => (None, None, None, None, Some (hist_diffs 0 (m_hist k cs ss) (map snd ss), m_hist k cs ss))
  end.
