package main

import (
	"bytes"
	"context"
	"crypto"
	"crypto/ecdsa"
	"crypto/elliptic"
	crand "crypto/rand"
	"crypto/sha256"
	"crypto/x509"
	"database/sql"
	"encoding/base64"
	"encoding/json"
	"encoding/pem"
	"fmt"
	"io"
	"math/rand"
	"net/http"
	"net/http/httptest"
	"net/url"
	"os"
	"path/filepath"
	"sort"
	"strings"
	"sync/atomic"
	"time"

	ct "github.com/google/certificate-transparency-go"
	"github.com/google/certificate-transparency-go/tls"
	wit "github.com/google/certificate-transparency-go/verifhooks/witness"
	"github.com/gorilla/mux"
	_ "github.com/mattn/go-sqlite3"
	"google.golang.org/grpc/codes"
	"google.golang.org/grpc/status"

	"verif/harness/lib"
)

// ---- logs ----

type logT struct {
	name       string
	id         string // the id string used as map key / URL component
	sk         *ecdsa.PrivateKey
	sv         *ct.SignatureVerifier
	configured bool
	idHash     []byte // what FromBase64String(id) yields; nil if it fails
	// an id string that is NOT configured but is another spelling of the configured log aliasOf's id
	// (spelling.go); it carries that log's key, so everything it signs is a valid STH of that log
	aliasOf  *logT
	spelling string
	// restart histories (restart.go): the log belongs to the pool the successive configurations are
	// drawn from, so `configured` changes at every restart; signature verdicts are recorded for it always
	pool bool
}

func newLog(name string, configured bool, badKeyString bool) *logT {
	return newLogWith(name, configured, badKeyString, nil)
}

// newLogWith draws keys until the base64 id string satisfies need (e.g. contains '/' and '+').
func newLogWith(name string, configured bool, badKeyString bool, need func(id string) bool) *logT {
	var sk *ecdsa.PrivateKey
	var h [32]byte
	for {
		var err error
		sk, err = ecdsa.GenerateKey(elliptic.P256(), crand.Reader)
		if err != nil {
			panic(err)
		}
		der, _ := x509.MarshalPKIXPublicKey(&sk.PublicKey)
		h = sha256.Sum256(der)
		if need == nil || need(base64.StdEncoding.EncodeToString(h[:])) {
			break
		}
	}
	sv, err := ct.NewSignatureVerifier(crypto.PublicKey(&sk.PublicKey))
	if err != nil {
		panic(err)
	}
	l := &logT{name: name, sk: sk, sv: sv, configured: configured}
	l.id = base64.StdEncoding.EncodeToString(h[:])
	l.idHash = h[:]
	if badKeyString {
		l.id = "log/" + name + "?not base64"
		l.idHash = nil
	}
	return l
}

// ---- candidate STHs ----

type sthSpec struct {
	size    uint64
	root    []byte // 32 bytes
	ts      uint64
	version int
	signer  *logT   // whose key signs
	sigMode string  // good | flip | othersize
	idMode  string  // absent | own | other | random | near
	idOwner *logT   // for idMode own/other
	form    string  // std | getsth | junk-cosig | spaced
}

func (h *harness) buildSTH(s sthSpec) []byte {
	var sth ct.SignedTreeHead
	sth.Version = ct.V1
	sth.TreeSize = s.size
	sth.Timestamp = s.ts
	copy(sth.SHA256RootHash[:], s.root)
	signed := sth
	if s.sigMode == "othersize" {
		signed.TreeSize = s.size + 1
	}
	in, err := ct.SerializeSTHSignatureInput(signed)
	if err != nil {
		panic(err)
	}
	sig, err := tls.CreateSignature(*s.signer.sk, tls.SHA256, in)
	if err != nil {
		panic(err)
	}
	if s.sigMode == "flip" {
		sig.Signature[len(sig.Signature)/2] ^= 0x40
	}
	sth.TreeHeadSignature = ct.DigitallySigned(sig)
	sth.Version = ct.Version(s.version)
	switch s.idMode {
	case "own", "other":
		if s.idOwner.idHash != nil {
			copy(sth.LogID[:], s.idOwner.idHash)
		}
	case "random":
		h.r.Read(sth.LogID[:])
	case "near":
		if s.idOwner.idHash != nil {
			copy(sth.LogID[:], s.idOwner.idHash)
		}
		sth.LogID[h.r.Intn(32)] ^= 1 << uint(h.r.Intn(8))
	}
	sigB64, _ := sth.TreeHeadSignature.Base64String()
	rootB64 := base64.StdEncoding.EncodeToString(sth.SHA256RootHash[:])
	switch s.form {
	case "getsth": // the shape a log's get-sth answers with (what the feeder forwards)
		return []byte(fmt.Sprintf(`{"tree_size":%d,"timestamp":%d,"sha256_root_hash":%q,"tree_head_signature":%q}`, s.size, s.ts, rootB64, sigB64))
	case "junk-cosig": // a foreign witness_signatures member travelling with the log-signed STH
		junk := make([]byte, 8+h.r.Intn(40))
		h.r.Read(junk)
		ds := tls.DigitallySigned{Algorithm: tls.SignatureAndHashAlgorithm{Hash: tls.SHA256, Signature: tls.ECDSA}, Signature: junk}
		jb, _ := tls.Marshal(ds)
		return []byte(fmt.Sprintf(`{"sth_version":%d,"tree_size":%d,"timestamp":%d,"sha256_root_hash":%q,"tree_head_signature":%q,"witness_signatures":[%q]}`,
			s.version, s.size, s.ts, rootB64, sigB64, base64.StdEncoding.EncodeToString(jb)))
	case "spaced":
		return []byte(fmt.Sprintf("{ \"tree_size\" : %d,\n \"timestamp\":%d, \"sha256_root_hash\":%q ,\"tree_head_signature\":%q, \"log_id\":%q }", s.size, s.ts, rootB64,
			sigB64, base64.StdEncoding.EncodeToString(sth.LogID[:])))
	}
	b, err := json.Marshal(sth)
	if err != nil {
		panic(err)
	}
	return b
}

// ---- decoded views (the oracle tables of the model) ----

type psth struct {
	Version uint64 `json:"version"`
	Size    uint64 `json:"size"`
	Time    uint64 `json:"time"`
	Root    []byte `json:"root"`
	Sig     []byte `json:"sig"`
	LogID   []byte `json:"log_id"`
}

func toPsth(s *ct.SignedTreeHead) (psth, bool) {
	sg, err := tls.Marshal(tls.DigitallySigned(s.TreeHeadSignature))
	if err != nil {
		return psth{}, false
	}
	return psth{uint64(s.Version), s.TreeSize, s.Timestamp, append([]byte{}, s.SHA256RootHash[:]...), sg, append([]byte{}, s.LogID[:]...)}, true
}

func (p psth) coq() string {
	return curCB.term(fmt.Sprintf("(mk %s %s %s %s %s %s)", lib.Nn(p.Version), lib.Nn(p.Size), lib.Nn(p.Time), hx(p.Root), hx(p.Sig), hx(p.LogID)))
}

func (p psth) sameSigned(q psth) bool {
	return p.Version == q.Version && p.Size == q.Size && p.Time == q.Time && bytes.Equal(p.Root, q.Root) && bytes.Equal(p.Sig, q.Sig)
}

type rawInfo struct {
	raw     []byte
	decoded *ct.SignedTreeHead
	p       psth
	ok      bool            // json.Unmarshal succeeded (and the signature re-encodes)
	verdict map[string]bool // log id -> VerifySTHSignature == nil
}

func (h *harness) inspect(raw []byte, logs []*logT) *rawInfo {
	ri := &rawInfo{raw: raw, verdict: map[string]bool{}}
	var sth ct.SignedTreeHead
	if err := json.Unmarshal(raw, &sth); err != nil {
		return ri
	}
	p, ok := toPsth(&sth)
	if !ok {
		return ri
	}
	ri.decoded, ri.p, ri.ok = &sth, p, true
	for _, l := range logs {
		if l.configured || l.pool {
			ri.verdict[l.id] = l.sv.VerifySTHSignature(sth) == nil
		}
	}
	return ri
}

// ---- a witness instance ----

type instance struct {
	w      *wit.Witness
	db     *sql.DB
	dbfile string
	mode   string
	wv     *wit.WitnessVerifier
	srv    *httptest.Server
	logs   []*logT
	hung   int32 // an operation did not return: the instance is abandoned (its connection is stuck)
	// restart histories (restart.go): the Witness value of the previous epoch, kept in use next to the
	// new one when the configuration did not change (two instances over one database)
	alt    *wit.Witness
	altSrv *httptest.Server
	dsn    string
	fc     *faultCtl // storage-fault histories (fault.go): the database is opened over the fault-injecting driver
}

func (h *harness) newInstance(mode string, logs []*logT, viaHTTP bool) *instance {
	in := &instance{mode: mode, logs: logs, fc: h.nextFault}
	h.nextFault = nil
	switch mode {
	case "memory-1conn":
		in.dsn = ":memory:"
	case "file-1conn": // exactly what impl.Main does
		h.dbn++
		in.dbfile = filepath.Join(h.dbdir, fmt.Sprintf("w%d.db", h.dbn))
		in.dsn = in.dbfile
	case "file-pool", "file-pool-wal": // several connections: SQLite's own locking serialises the transactions
		h.dbn++
		in.dbfile = filepath.Join(h.dbdir, fmt.Sprintf("w%d.db", h.dbn))
		in.dsn = "file:" + in.dbfile + "?_busy_timeout=2000"
		if mode == "file-pool-wal" {
			in.dsn += "&_journal_mode=WAL"
		}
	default:
		panic(mode)
	}
	in.openDB()
	in.w = h.newWitness(in)
	in.wv = h.wv
	if viaHTTP {
		in.srv = serve(in.w)
	}
	return in
}

func (in *instance) openDB() {
	var err error
	if in.fc != nil {
		in.db = openFaultDB(in.dsn, in.fc)
	} else if in.db, err = sql.Open("sqlite3", in.dsn); err != nil {
		panic(err)
	}
	if strings.HasPrefix(in.mode, "file-pool") {
		in.db.SetMaxOpenConns(6)
	} else {
		in.db.SetMaxOpenConns(1)
	}
}

// newWitness: witness.New over the instance's database (which may already hold a table) with the logs
// that are configured now.
func (h *harness) newWitness(in *instance) *wit.Witness {
	known := map[string]ct.SignatureVerifier{}
	for _, l := range in.logs {
		if l.configured {
			known[l.id] = *l.sv
		}
	}
	w, err := wit.New(wit.Opts{DB: in.db, PrivKey: h.witnessPEM, KnownLogs: known})
	if err != nil {
		panic(err)
	}
	return w
}

func serve(w *wit.Witness) *httptest.Server {
	r := mux.NewRouter().UseEncodedPath()
	wit.NewServer(w).RegisterHandlers(r)
	return httptest.NewServer(r)
}

func (in *instance) close() {
	if atomic.LoadInt32(&in.hung) == 0 {
		if in.srv != nil {
			in.srv.Close()
		}
		if in.altSrv != nil {
			in.altSrv.Close()
		}
		in.db.Close()
	}
	if in.dbfile != "" {
		for _, sfx := range []string{"", "-journal", "-wal", "-shm"} {
			os.Remove(in.dbfile + sfx)
		}
	}
}

// hangs counts operations that never returned, over the whole run; after a few the history
// streams stop (every further case would spend its watchdog time the same way).
var hangs int32

// ---- observations ----

type obsT struct {
	kind     string // rsp | http | logs | panic
	class    string // EOk ENotFound EFailedPre EOther
	status   int
	body     []byte // nil = none
	cosigned bool   // body carries witness signatures (and is not a verbatim echo of a submitted raw)
	echo     bool   // body is byte-identical to a raw submitted earlier in this history
	p        psth
	enc      []byte
	verified bool
	junkSigs bool // an echoed body carries witness_signatures that do not verify
	logs     []string
	logsErr  bool
	note     string
}

func classOf(err error) string {
	if err == nil {
		return "EOk"
	}
	switch status.Code(err) {
	case codes.NotFound:
		return "ENotFound"
	case codes.FailedPrecondition:
		return "EFailedPre"
	}
	return "EOther"
}

func (o *obsT) bodyCoq() string {
	switch {
	case o.body == nil:
		return "XNone"
	case o.cosigned:
		return fmt.Sprintf("(XCosigned %s %s %s)", o.p.coq(), hx(o.enc), lib.Bool(o.verified))
	default:
		return "(XRaw " + rawTag(o.body) + ")"
	}
}

// curCB is the builder of the case being rendered: byte strings and decoded STHs are
// let-bound once per case (Coq spends its time parsing hex literals, not evaluating).
var curCB = newCaseBuilder()

func hx(b []byte) string { return curCB.name(b) }

// rawTag: the model only ever compares raw STH bytes for equality (table key, echoed body),
// so the case carries a 96-bit digest of each raw instead of ~350 bytes of JSON (Coq's cost is
// parsing literals).  The JSON mirror of the case keeps the bytes themselves.
func rawTag(b []byte) string {
	d := sha256.Sum256(append([]byte("raw:"), b...))
	return curCB.name(d[:12])
}

func (o *obsT) coq() string {
	switch o.kind {
	case "panic":
		return "XPanic"
	case "logs":
		if o.logsErr {
			return "(XLogs None)"
		}
		var xs []string
		for _, l := range o.logs {
			xs = append(xs, hx([]byte(l)))
		}
		return "(XLogs (Some " + lib.List(xs) + "))"
	case "http":
		return fmt.Sprintf("(XHttp %s %s)", lib.Nn(uint64(o.status)), o.bodyCoq())
	}
	return fmt.Sprintf("(XRsp %s %s)", o.bodyCoq(), o.class)
}

func (o *obsT) json() interface{} {
	m := map[string]interface{}{"kind": o.kind}
	switch o.kind {
	case "logs":
		m["logs"], m["error"] = o.logs, o.logsErr
	case "panic":
		m["note"] = o.note
	default:
		m["class"] = o.class
		if o.kind == "http" {
			m["status"] = o.status
		}
		switch {
		case o.body == nil:
			m["body"] = "none"
		case o.cosigned:
			m["body"] = map[string]interface{}{"cosigned": map[string]interface{}{"size": o.p.Size, "root": fmt.Sprintf("%x", o.p.Root), "time": o.p.Time}, "cosignature_verifies": o.verified}
		default:
			m["body"] = map[string]interface{}{"raw_echo": o.echo, "len": len(o.body), "junk_witness_signatures": o.junkSigs}
		}
	}
	return m
}

// classify fills the body-related fields of an observation.  Independent of the model: a
// body is a "verbatim echo" iff it is byte-identical to one of the raws submitted so far.
func (in *instance) classify(o *obsT, submitted map[string]bool) {
	if o.body == nil {
		return
	}
	var cs wit.CosignedSTH
	perr := json.Unmarshal(o.body, &cs)
	if submitted[string(o.body)] {
		o.echo = true
		if perr == nil && len(cs.WitnessSigs) > 0 && in.wv.VerifySignature(cs) != nil {
			o.junkSigs = true
		}
		return
	}
	if perr != nil || len(cs.WitnessSigs) == 0 {
		return // neither an echo nor cosigned: stays XRaw of unknown bytes (the model will disagree)
	}
	p, ok := toPsth(&cs.SignedTreeHead)
	if !ok {
		return
	}
	o.cosigned, o.p = true, p
	o.enc, _ = tls.Marshal(cs.SignedTreeHead)
	o.verified = in.wv.VerifySignature(cs) == nil
}

type opT struct {
	kind  string // update | getsth | getlogs
	log   *logT
	raw   []byte
	proof [][]byte
	fault string // NoFault | FBegin (assigned after observation)
	desc  string
	// restart histories: send the operation to the Witness value of the previous epoch (instance.alt)
	viaAlt bool
	// set by generators that KNOW the candidate is not a genuine extension of the held STH although
	// it is signed and comes with a proof (the reason); only the direct oracle reads it
	mustRefuse string
}

func (o *opT) coq() string {
	switch o.kind {
	case "update":
		return fmt.Sprintf("(OUpdate %s %s %s %s)", hx([]byte(o.log.id)), rawTag(o.raw), hexList(o.proof), o.fault)
	case "getsth":
		return fmt.Sprintf("(OGetSTH %s %s)", hx([]byte(o.log.id)), lib.Bool(o.fault != "NoFault"))
	}
	return fmt.Sprintf("(OGetLogs %s)", lib.Bool(o.fault != "NoFault"))
}

func (o *opT) json() interface{} {
	m := map[string]interface{}{"op": o.kind, "desc": o.desc}
	if o.log != nil {
		m["log"] = o.log.name
	}
	if o.kind == "update" {
		m["raw"] = string(o.raw)
		var ps []string
		for _, p := range o.proof {
			ps = append(ps, fmt.Sprintf("%x", p))
		}
		m["proof"] = ps
	}
	if o.fault != "NoFault" {
		m["db_fault"] = true
	}
	if o.viaAlt {
		m["via"] = "the Witness value created before the last restart (same database, same configuration)"
	}
	return m
}

// exec runs one operation against the real witness (direct call or over HTTP), with a
// recover() and a watchdog.
func (in *instance) exec(o *opT, submitted map[string]bool) *obsT {
	if atomic.LoadInt32(&in.hung) != 0 {
		return &obsT{kind: "panic", note: "skipped: an earlier operation on this witness never returned"}
	}
	type res struct{ o *obsT }
	ch := make(chan res, 1)
	go func() {
		ob := &obsT{}
		defer func() {
			if e := recover(); e != nil {
				ob = &obsT{kind: "panic", note: fmt.Sprint(e)}
			}
			ch <- res{ob}
		}()
		if in.srv != nil {
			in.execHTTP(o, ob)
		} else {
			in.execDirect(o, ob)
		}
	}()
	select {
	case r := <-ch:
		if r.o.kind != "panic" && r.o.kind != "logs" {
			in.classify(r.o, submitted)
		}
		return r.o
	case <-time.After(8 * time.Second):
		atomic.StoreInt32(&in.hung, 1)
		atomic.AddInt32(&hangs, 1)
		return &obsT{kind: "panic", note: "hang: " + o.kind + " did not return within 8s (db mode " + in.mode + ")"}
	}
}

func (in *instance) execDirect(o *opT, ob *obsT) {
	w := in.w
	if o.viaAlt && in.alt != nil {
		w = in.alt
	}
	switch o.kind {
	case "update":
		b, err := w.Update(context.Background(), o.log.id, o.raw, o.proof)
		ob.kind, ob.class, ob.body = "rsp", classOf(err), b
	case "getsth":
		b, err := w.GetSTH(o.log.id)
		ob.kind, ob.class, ob.body = "rsp", classOf(err), b
	case "getlogs":
		ls, err := w.GetLogs()
		sort.Strings(ls)
		ob.kind, ob.logs, ob.logsErr = "logs", ls, err != nil
	}
}

func (in *instance) execHTTP(o *opT, ob *obsT) {
	var rsp *http.Response
	var err error
	base := in.srv.URL
	if o.viaAlt && in.altSrv != nil {
		base = in.altSrv.URL
	}
	switch o.kind {
	case "update":
		body, _ := json.Marshal(&wit.UpdateRequest{STH: o.raw, Proof: o.proof})
		req, _ := http.NewRequest(http.MethodPut, base+fmt.Sprintf(wit.HTTPUpdate, url.PathEscape(o.log.id)), bytes.NewReader(body))
		rsp, err = http.DefaultClient.Do(req)
	case "getsth":
		rsp, err = http.Get(base + fmt.Sprintf(wit.HTTPGetSTH, url.PathEscape(o.log.id)))
	case "getlogs":
		rsp, err = http.Get(base + wit.HTTPGetLogs)
	}
	if err != nil {
		panic("http transport: " + err.Error())
	}
	defer rsp.Body.Close()
	b, _ := io.ReadAll(rsp.Body)
	if o.kind == "getlogs" {
		ob.kind = "logs"
		if rsp.StatusCode != 200 {
			ob.logsErr = true
			return
		}
		if err := json.Unmarshal(b, &ob.logs); err != nil {
			ob.logsErr = true
		}
		sort.Strings(ob.logs)
		return
	}
	ob.kind, ob.status = "http", rsp.StatusCode
	switch rsp.StatusCode {
	case 200:
		ob.class, ob.body = "EOk", b
	case 409:
		ob.class, ob.body = "EFailedPre", b
	case 404:
		ob.class = "ENotFound"
	default:
		ob.class = "EOther"
	}
	if ob.body != nil && len(ob.body) == 0 {
		ob.body = nil
	}
}

// ---- shared state of the run ----

type harness struct {
	r          *rand.Rand
	w          *lib.Writer
	dbdir      string
	dbn        int
	witnessPEM string
	wv         *wit.WitnessVerifier
	nextFault  *faultCtl // consumed by the next newInstance (fault.go)
	strict     bool // flag the two documented findings as property failures (VERIF_C19_STRICT=1)
}

func newHarness(r *rand.Rand, w *lib.Writer) *harness {
	h := &harness{r: r, w: w}
	h.dbdir = filepath.Join(*lib.OutDir, "db")
	os.MkdirAll(h.dbdir, 0o755)
	wsk, err := ecdsa.GenerateKey(elliptic.P256(), crand.Reader)
	if err != nil {
		panic(err)
	}
	p8, _ := x509.MarshalPKCS8PrivateKey(wsk)
	h.witnessPEM = string(pem.EncodeToMemory(&pem.Block{Type: "PRIVATE KEY", Bytes: p8}))
	h.wv, err = wit.NewWitnessVerifier(crypto.PublicKey(&wsk.PublicKey))
	if err != nil {
		panic(err)
	}
	h.strict = os.Getenv("VERIF_C19_STRICT") != "0" // both findings are fixed in /repo: any recurrence is a property failure
	return h
}

func (h *harness) randLeaves(n int) [][]byte {
	ls := make([][]byte, n)
	for i := range ls {
		ls[i] = make([]byte, 1+h.r.Intn(5))
		h.r.Read(ls[i])
	}
	return ls
}

// caseBuilder assembles the Coq term of a case with every byte string (>= 8 bytes) and every
// decoded STH let-bound once.
type caseBuilder struct {
	names map[string]string
	lets  []string
}

func newCaseBuilder() *caseBuilder { return &caseBuilder{names: map[string]string{}} }

func (cb *caseBuilder) name(b []byte) string {
	if len(b) < 8 {
		return lib.Hex(b)
	}
	k := "b:" + string(b)
	if n, ok := cb.names[k]; ok {
		return n
	}
	n := fmt.Sprintf("b%d", len(cb.lets))
	cb.names[k] = n
	cb.lets = append(cb.lets, fmt.Sprintf("let %s := %s in ", n, lib.Hex(b)))
	return n
}

func (cb *caseBuilder) term(t string) string {
	k := "t:" + t
	if n, ok := cb.names[k]; ok {
		return n
	}
	n := fmt.Sprintf("t%d", len(cb.lets))
	cb.names[k] = n
	cb.lets = append(cb.lets, fmt.Sprintf("let %s := %s in ", n, t))
	return n
}

func (cb *caseBuilder) wrap(term string) string {
	return "(" + strings.Join(cb.lets, "") + term + ")"
}
