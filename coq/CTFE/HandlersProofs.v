(* C08: lemmas about the handler model (CTFE/HandlersModel.v) against the property predicates
   (CTFE/HandlersSpec.v).  All statements are for ALL configurations, environments, requests
   (all parameter byte strings) and backend replies (all sizes, lists and codes). *)
From Coq Require Import ZArith Bool List Lia ZifyBool.
From Coq.Strings Require Import Byte.
From V Require Import Base.GoInt Base.Bytes gen.HttpStatus gen.GetEntries gen.HandlerConds
  CTFE.HandlersModel CTFE.HandlersSpec.
Import ListNotations.
Open Scope Z_scope.

(* ------------------------------------------------------------------ the generated status table *)

Ltac split_code c :=
  repeat match goal with
  | |- context [c =? ?k] => destruct (Z.eqb_spec c k); [subst c; cbn | ]
  end.

Lemma ths_range c : c <> 0 -> 400 <= to_http_status c < 600.
Proof. intros H. unfold to_http_status. split_code c; cbn; try lia. Qed.

Lemma ths_not_200 c : c <> 0 -> to_http_status c <> 200.
Proof. intros H. pose proof (ths_range c H). lia. Qed.

Lemma ths_table c : c <> 0 ->
  (caller_caused_code c -> 400 <= to_http_status c < 500)
  /\ (c = 8 -> to_http_status c = 429)
  /\ (c = 14 -> to_http_status c = 503)
  /\ (c = 1 \/ c = 4 -> to_http_status c = 504)
  /\ (~ caller_caused_code c -> c <> 8 -> 500 <= to_http_status c < 600).
Proof.
  intros H. unfold caller_caused_code, to_http_status.
  split_code c; cbn; repeat split; intros; try lia.
Qed.

Lemma ths_exact :
  to_http_status 1 = 504 /\ to_http_status 2 = 500 /\ to_http_status 3 = 400 /\ to_http_status 4 = 504
  /\ to_http_status 5 = 404 /\ to_http_status 6 = 400 /\ to_http_status 7 = 403 /\ to_http_status 8 = 429
  /\ to_http_status 9 = 412 /\ to_http_status 10 = 409 /\ to_http_status 11 = 400 /\ to_http_status 12 = 501
  /\ to_http_status 13 = 500 /\ to_http_status 14 = 503 /\ to_http_status 15 = 500 /\ to_http_status 16 = 401.
Proof. vm_compute. repeat split. Qed.

Lemma to_status_range cfg ec : sane_mapper cfg -> err_ok ec -> 400 <= to_status cfg ec < 600.
Proof.
  intros Hm He. unfold to_status. destruct (c_mapper cfg ec) eqn:E.
  - exact (Hm _ _ E).
  - destruct ec; cbn in He; try lia. apply ths_range; assumption.
Qed.

Lemma err_of_fault_ok f : fault_ok f -> err_ok (err_of_fault f).
Proof. destruct f; cbn; auto. Qed.

(* ------------------------------------------------------------------ strconv.ParseInt classes *)

Lemma digit_range b d : digit b = Some d -> 0 <= d <= 9.
Proof.
  unfold digit. intros H.
  destruct ((48 <=? Z.of_N (to_N b)) && (Z.of_N (to_N b) <=? 57)) eqn:E; inversion H; lia.
Qed.

Lemma digits_nonneg bs : forall acc u, 0 <= acc -> digits bs acc = Some u -> 0 <= u.
Proof.
  induction bs as [|b r IH]; cbn; intros acc u Ha H.
  - inversion H; lia.
  - destruct (digit b) eqn:D; [|discriminate]. apply digit_range in D. eapply IH; [|exact H]. lia.
Qed.

Lemma digits_nondigit bs : forall acc, (exists b, In b bs /\ digit b = None) -> digits bs acc = None.
Proof.
  induction bs as [|b r IH]; cbn; intros acc [x [Hin Hx]]; [contradiction|].
  destruct Hin as [->|Hin].
  - rewrite Hx. reflexivity.
  - destruct (digit b); [|reflexivity]. apply IH. eauto.
Qed.

(* every parameter string falls in exactly one ParseInt outcome class: an int64 value, or an error *)
Lemma parse_int64_range s z : parse_int64 s = Some z -> in_i64 z.
Proof.
  unfold parse_int64, in_i64. rewrite max_i64_eq, min_i64_eq.
  destruct s as [|b r]; [discriminate|].
  set (ds := if is_plus b || is_minus b then r else b :: r).
  destruct ds as [|d0 dr] eqn:Eds; [discriminate|].
  destruct (digits (d0 :: dr) 0) as [u|] eqn:Ed; [|discriminate].
  apply digits_nonneg in Ed; [|lia]. pose proof two63_pos as Hpos.
  destruct (is_minus b).
  - destruct (u <=? two63) eqn:E; intros Hp; inversion Hp; lia.
  - destruct (u <? two63) eqn:E; intros Hp; inversion Hp; lia.
Qed.

Lemma parse_int64_classes s : parse_int64 s = None \/ exists z, parse_int64 s = Some z /\ in_i64 z.
Proof. destruct (parse_int64 s) eqn:E; [right; eexists; split; [reflexivity|eapply parse_int64_range; eauto] | left; reflexivity]. Qed.

Lemma parse_int64_empty : parse_int64 [] = None.
Proof. reflexivity. Qed.

(* a byte that is not a decimal digit anywhere after the first position, or a non-digit, non-sign first byte *)
Lemma parse_int64_nondigit_tail b r : (exists x, In x r /\ digit x = None) -> parse_int64 (b :: r) = None.
Proof.
  intros Hx. unfold parse_int64.
  destruct (is_plus b || is_minus b).
  - destruct r as [|d0 dr]; [reflexivity|]. rewrite digits_nondigit; auto.
  - rewrite digits_nondigit; auto. destruct Hx as [x [Hin Hd]]. exists x. split; [right; exact Hin|exact Hd].
Qed.

Lemma parse_int64_nondigit_head b r : digit b = None -> is_plus b = false -> is_minus b = false -> parse_int64 (b :: r) = None.
Proof.
  intros Hd Hp Hm. unfold parse_int64. rewrite Hp, Hm. cbn [orb].
  rewrite digits_nondigit; [reflexivity|]. exists b. split; [left; reflexivity|exact Hd].
Qed.

(* ------------------------------------------------------------------ handler-level facts *)

(* what every handler return must look like for ServeHTTP to answer correctly *)
Definition hret_coherent (h : hres) : Prop :=
  match h with
  | HPanic => True
  | HRet st err sct cs => (err = false -> st = 200) /\ (sct = true -> st = 200 \/ (st = 500 /\ err = true))
  end.

(* a handler return that refuses: error, 4xx/5xx, no SCT *)
Definition hret_refuses (h : hres) : Prop :=
  match h with
  | HPanic => False
  | HRet st err sct cs => cs <> [] -> err = true /\ 400 <= st < 600 /\ sct = false
  end.

Definition hret_rejects_early (h : hres) : Prop :=
  match h with
  | HRet st true false [] => 400 <= st < 500
  | _ => False
  end.

Lemma finish_cases e sct cs :
  finish e sct cs = HRet 200 false sct cs \/ finish e sct cs = HRet 500 true sct cs.
Proof. unfold finish. destruct (write_ok e); auto. Qed.

Ltac break_match :=
  match goal with
  | |- context [match ?x with _ => _ end] => destruct x eqn:?
  | |- context [if ?x then _ else _] => destruct x eqn:?
  end.

Ltac break_hyp :=
  match goal with
  | H : context [match ?x with _ => _ end] |- _ => destruct x eqn:?
  | H : context [if ?x then _ else _] |- _ => destruct x eqn:?
  end.

Ltac fin e s c := destruct (finish_cases e s c) as [-> | ->].

(* ---- no panic, for the current guards *)

Lemma add_chain_total cfg e b be : add_chain current_guards cfg e b be <> HPanic.
Proof.
  unfold add_chain, current_guards, queue_rsp_missing, queue_leaf_missing, finish; cbn.
  destruct b; try discriminate.
  destruct (c_indirect cfg && negb (store_ok e)); try discriminate.
  destruct be as [f|q]; try discriminate.
  destruct q as [| | |d]; cbn; try discriminate.
  destruct d; try discriminate.
  destruct (negb (signer_ok e)); try discriminate. destruct (write_ok e); discriminate.
Qed.

Lemma get_sth_total cfg e be mir : get_sth cfg e be mir <> HPanic.
Proof.
  unfold get_sth, finish.
  repeat (break_match; try discriminate).
Qed.

Lemma get_sth_consistency_total cfg e pf ps be : get_sth_consistency current_guards cfg e pf ps be <> HPanic.
Proof.
  unfold get_sth_consistency, current_guards, consistency_proof_missing, finish; cbn.
  repeat (break_match; try discriminate).
Qed.

Lemma get_proof_by_hash_total cfg e h pts be : get_proof_by_hash cfg e h pts be <> HPanic.
Proof.
  unfold get_proof_by_hash, finish.
  repeat (break_match; try discriminate).
Qed.

Lemma get_entries_total cfg e ps pe be : get_entries cfg e ps pe be <> HPanic.
Proof.
  unfold get_entries, finish.
  repeat (break_match; try discriminate).
Qed.

Lemma get_entry_and_proof_total cfg e pli pts be : get_entry_and_proof current_guards cfg e pli pts be <> HPanic.
Proof.
  unfold get_entry_and_proof, fix_log_leaf, current_guards, fixleaf_nil_guard, eap_reply_incomplete, finish; cbn.
  repeat (break_match; try discriminate); cbn in *; try discriminate;
    repeat (break_hyp; try discriminate); exfalso; lia.
Qed.

Lemma handle_total cfg e r b : handle current_guards cfg e r b <> HPanic.
Proof.
  destruct r; cbn.
  - apply add_chain_total.
  - apply get_sth_total.
  - apply get_sth_consistency_total.
  - apply get_proof_by_hash_total.
  - apply get_entries_total.
  - unfold get_roots, finish. destruct (write_ok e); discriminate.
  - apply get_entry_and_proof_total.
Qed.

Lemma serve_no_panic cfg e m fo r b : serve current_guards cfg e m fo r b <> Panic.
Proof.
  unfold serve.
  destruct (negb (meth_eqb m (method_of (endpoint_of r)))); [discriminate|].
  destruct (meth_eqb m MGet && negb fo); [discriminate|].
  pose proof (handle_total cfg e r b) as H.
  destruct (handle current_guards cfg e r b) as [|st err sct cs]; [congruence|].
  destruct err; [discriminate|]. destruct (serve_guard_non200 st); discriminate.
Qed.
