// C04 correspondence harness: the repository's own RFC 6962 wire types and the exported
// functions around them (signature inputs, leaf hash, entry decoding, JSON message
// conversions), on generated values and byte strings.
package main

import (
	"crypto/sha256"
	"encoding/base64"
	"encoding/json"
	"flag"
	"fmt"
	mrand "math/rand"
	"reflect"
	"strings"

	ct "github.com/google/certificate-transparency-go"
	"github.com/google/certificate-transparency-go/tls"
	"github.com/google/certificate-transparency-go/x509"

	"verif/harness/lib"
	"verif/harness/tlsgen"
)

const header = `From Coq Require Import String NArith List. Import ListNotations.
From V Require Import Base.Bytes TLS.TlsModel gen.CtTypes CT.Rfc6962Spec CT.CtFuncs CT.CtCase.
Local Open Scope N_scope.
`

type wire struct {
	name string
	t    reflect.Type
	d    *tlsgen.Ty
}

func classify(err error) string {
	if err == nil {
		return "ok"
	}
	s := err.Error()
	switch {
	case strings.HasPrefix(s, "tls: syntax error"):
		return "syntax"
	case strings.HasPrefix(s, "tls: structure error"):
		return "struct"
	}
	return "other"
}

func coqClass(c string) string {
	switch c {
	case "syntax":
		return "ErrSyntax"
	case "panic":
		return "Panic"
	}
	return "ErrStruct"
}

func try(f func()) (panicked bool) {
	defer func() {
		if r := recover(); r != nil {
			panicked = true
		}
	}()
	f()
	return false
}

var sizes = []int{0, 1, 2, 31, 32, 33, 254, 255, 256, 257, 1000, 65534, 65535, 65536, 65537}

func payload(r interface{ Intn(int) int }, n int) []byte {
	b := make([]byte, n)
	fill := byte(r.Intn(256))
	for i := range b {
		if n <= 64 {
			b[i] = byte(r.Intn(256))
		} else {
			b[i] = fill
		}
	}
	return b
}

func main() {
	flag.Parse()
	r := lib.Rand()
	w := lib.NewWriter(header, 120)
	defer w.Guard()
	n := lib.Count(500, 8000)
	g := &tlsgen.Gen{R: r}

	wires := []wire{}
	for _, x := range []struct {
		n string
		v interface{}
	}{
		{"MerkleTreeLeaf", ct.MerkleTreeLeaf{}}, {"TimestampedEntry", ct.TimestampedEntry{}},
		{"SignedCertificateTimestamp", ct.SignedCertificateTimestamp{}}, {"CertificateTimestamp", ct.CertificateTimestamp{}},
		{"TreeHeadSignature", ct.TreeHeadSignature{}}, {"DigitallySigned", tls.DigitallySigned{}},
		{"ASN1Cert", ct.ASN1Cert{}}, {"PreCert", ct.PreCert{}}, {"CertificateChain", ct.CertificateChain{}},
		{"PrecertChainEntry", ct.PrecertChainEntry{}}, {"CertificateChainHash", ct.CertificateChainHash{}},
		{"PrecertChainEntryHash", ct.PrecertChainEntryHash{}}, {"SCTList", x509.SignedCertificateTimestampList{}},
	} {
		t := reflect.TypeOf(x.v)
		wires = append(wires, wire{x.n, t, tlsgen.FromGoType(t)})
	}

	for i := 0; i < n; i++ {
		switch i % 5 {
		case 0, 1: // generic marshal / unmarshal on a real wire type
			wt := wires[r.Intn(len(wires))]
			valid := r.Intn(6) != 0
			pv := reflect.New(wt.t)
			g.Missed = false
			g.Value(wt.d, "", pv.Elem(), valid)
			var b []byte
			var err error
			pan := try(func() { b, err = tls.Marshal(pv.Elem().Interface()) })
			cls := classify(err)
			if pan {
				cls = "panic"
			}
			obs := coqClass(cls)
			propOK, note := !pan, ""
			if cls == "ok" {
				obs = "Ok " + lib.Bytes(b)
				back := reflect.New(wt.t)
				rest, uerr := tls.Unmarshal(b, back.Interface())
				if uerr != nil || len(rest) != 0 {
					propOK, note = false, "encoding of "+wt.name+" does not decode"
				}
			}
			w.Add(lib.Case{
				Coq:    fmt.Sprintf("CTyMarshal gen_%s %s (%s)", wt.name, tlsgen.ValCoq(wt.d, pv.Elem()), obs),
				Input:  map[string]interface{}{"op": "marshal", "type": wt.name, "valid": valid},
				Impl:   map[string]interface{}{"class": cls, "len": len(b)},
				PropOK: propOK, Note: note, Tags: []string{"marshal:" + wt.name + ":" + cls},
			})
			if cls != "ok" {
				continue
			}
			// decode the exact bytes, with trailing data, truncated, and with a corrupted length
			variants := map[string][]byte{"exact": b, "trailing": append(append([]byte{}, b...), 0)}
			if len(b) > 1 {
				variants["truncated"] = b[:len(b)-1-r.Intn(len(b)-1)]
				m := append([]byte{}, b...)
				k := r.Intn(len(m))
				if len(m) > 12 {
					k = r.Intn(12)
				}
				m[k] ^= byte(1 << uint(r.Intn(8)))
				variants["bitflip"] = m
			}
			for _, kind := range []string{"exact", "trailing", "truncated", "bitflip"} {
				in, ok := variants[kind]
				if !ok || len(in) > 70000 {
					continue
				}
				dst := reflect.New(wt.t)
				var rest []byte
				var uerr error
				pan := try(func() { rest, uerr = tls.Unmarshal(in, dst.Interface()) })
				c := classify(uerr)
				if pan {
					c = "panic"
				}
				o := coqClass(c)
				pOK, pnote := !pan, ""
				if c == "ok" {
					o = fmt.Sprintf("Ok (%s, %s)", tlsgen.ValCoq(wt.d, dst.Elem()), lib.Bytes(rest))
					rb, rerr := tls.Marshal(dst.Elem().Interface())
					if rerr != nil || string(rb) != string(in[:len(in)-len(rest)]) {
						pOK, pnote = false, "decoded "+wt.name+" does not re-encode to the consumed bytes"
					}
				}
				w.Add(lib.Case{
					Coq:    fmt.Sprintf("CTyParse gen_%s %s (%s)", wt.name, lib.Bytes(in), o),
					Input:  map[string]interface{}{"op": "unmarshal", "type": wt.name, "bytes": kind, "len": len(in)},
					Impl:   map[string]interface{}{"class": c, "rest": len(rest)},
					PropOK: pOK, Note: pnote, Tags: []string{"parse:" + kind + ":" + c},
				})
			}
		case 2: // signature inputs, leaf, leaf hash: RFC-level records at the size boundaries
			ts := r.Uint64()
			if r.Intn(3) == 0 {
				ts = []uint64{0, 1, 999, 1000, 1<<64 - 1, 1 << 63}[r.Intn(6)]
			}
			ext := payload(r, []int{0, 0, 0, 1, 255, 256, 65535}[r.Intn(7)])
			precert := r.Intn(2) == 0
			certLen := sizes[1+r.Intn(len(sizes)-1)]
			var entryCoq, bodyCoq string
			var etype uint64
			leaf := ct.MerkleTreeLeaf{Version: ct.V1, LeafType: ct.TimestampedEntryLeafType,
				TimestampedEntry: &ct.TimestampedEntry{Timestamp: ts, Extensions: ext}}
			if precert {
				var ikh [32]byte
				copy(ikh[:], payload(r, 32))
				tbs := payload(r, certLen)
				leaf.TimestampedEntry.EntryType = ct.PrecertLogEntryType
				leaf.TimestampedEntry.PrecertEntry = &ct.PreCert{IssuerKeyHash: ikh, TBSCertificate: tbs}
				entryCoq = fmt.Sprintf("(PrecertE %s %s)", lib.Bytes(ikh[:]), lib.Bytes(tbs))
				bodyCoq = fmt.Sprintf("(VStruct [Some (VBytes %s); Some (VBytes %s)])", lib.Bytes(ikh[:]), lib.Bytes(tbs))
				etype = 1
			} else {
				c := payload(r, certLen)
				leaf.TimestampedEntry.EntryType = ct.X509LogEntryType
				leaf.TimestampedEntry.X509Entry = &ct.ASN1Cert{Data: c}
				entryCoq = fmt.Sprintf("(X509E %s)", lib.Bytes(c))
				bodyCoq = fmt.Sprintf("(VStruct [Some (VBytes %s)])", lib.Bytes(c))
			}
			lb, lerr := tls.Marshal(leaf)
			if lerr != nil {
				// every value drawn here is one RFC 6962 allows: a refusal is a failure of the property, not of the harness
				w.Add(lib.Case{
					Coq:    fmt.Sprintf("CRfcLeaf %s %s %s %s", lib.Nn(ts), entryCoq, lib.Bytes(ext), lib.Bytes(nil)),
					Input:  map[string]interface{}{"op": "leaf", "precert": precert, "cert_len": certLen, "ext_len": len(ext), "ts": ts},
					Impl:   map[string]interface{}{"error": lerr.Error()},
					PropOK: false, Note: fmt.Sprintf("tls.Marshal refuses a MerkleTreeLeaf that RFC 6962 allows (certificate %d bytes, extensions %d bytes): %v", certLen, len(ext), lerr),
					Tags: []string{"rfc-leaf:refused"},
				})
				continue
			}
			h, herr := ct.LeafHashForLeaf(&leaf)
			var hl []byte // the harness's own encoding of the leaf (sweep.go)
			if precert {
				hl = handLeaf(ts, true, leaf.TimestampedEntry.PrecertEntry.IssuerKeyHash, leaf.TimestampedEntry.PrecertEntry.TBSCertificate, ext)
			} else {
				hl = handLeaf(ts, false, [32]byte{}, leaf.TimestampedEntry.X509Entry.Data, ext)
			}
			want := sha256.Sum256(append([]byte{0}, hl...))
			w.Add(lib.Case{
				Coq:    fmt.Sprintf("CRfcLeaf %s %s %s %s", lib.Nn(ts), entryCoq, lib.Bytes(ext), lib.Bytes(lb)),
				Input:  map[string]interface{}{"op": "leaf", "precert": precert, "cert_len": certLen, "ext_len": len(ext), "ts": ts},
				Impl:   map[string]interface{}{"len": len(lb)},
				PropOK: herr == nil && h == want && string(lb) == string(hl), Note: "leaf hash is not SHA256(0x00 || leaf), or the leaf is not the hand-encoded RFC 6962 leaf", Tags: []string{fmt.Sprintf("rfc-leaf:precert=%v", precert)},
			})
			version := ct.V1
			if r.Intn(6) == 0 {
				version = ct.Version(1 + r.Intn(255))
			}
			sct := ct.SignedCertificateTimestamp{SCTVersion: version, Timestamp: ts, Extensions: ext}
			// the entry handed to the serializer is what a verifier rebuilds from the chain: its own
			// timestamp and extensions are NOT what is signed (the SCT's are)
			vleaf := leaf
			vte := *leaf.TimestampedEntry
			vleaf.TimestampedEntry = &vte
			if r.Intn(3) != 0 {
				vte.Timestamp = r.Uint64()
				vte.Extensions = payload(r, r.Intn(4))
			}
			entry := ct.LogEntry{Leaf: vleaf}
			if r.Intn(8) == 0 {
				entry.Leaf.TimestampedEntry = &ct.TimestampedEntry{EntryType: ct.LogEntryType(2 + r.Intn(40000)), Timestamp: ts}
				etype = uint64(entry.Leaf.TimestampedEntry.EntryType)
				bodyCoq = "(VStruct [])"
			}
			sb, serr := ct.SerializeSCTSignatureInput(sct, entry)
			// metamorphic direct oracle: the signed bytes depend on the SCT's timestamp and extensions
			// and on the entry's type and body only - not on the entry's own timestamp / extensions
			sb0, serr0 := ct.SerializeSCTSignatureInput(sct, ct.LogEntry{Leaf: leaf})
			metaOK := (serr == nil) == (serr0 == nil) || entry.Leaf.TimestampedEntry.EntryType != leaf.TimestampedEntry.EntryType
			if serr == nil && serr0 == nil && entry.Leaf.TimestampedEntry.EntryType == leaf.TimestampedEntry.EntryType && string(sb) != string(sb0) {
				metaOK = false
			}
			so := "ErrStruct"
			if serr == nil {
				so = "Ok " + lib.Bytes(sb)
			}
			w.Add(lib.Case{
				Coq:    fmt.Sprintf("CSctInput %s %s %s %s %s (%s)", lib.Nn(uint64(version)), lib.Nn(ts), lib.Nn(etype), bodyCoq, lib.Bytes(ext), so),
				Input:  map[string]interface{}{"op": "sct-siginput", "version": version, "etype": etype},
				Impl:   map[string]interface{}{"ok": serr == nil, "len": len(sb)},
				PropOK: metaOK && (serr == nil) == (version == ct.V1 && etype <= 1), Note: "signature input produced for unknown version / entry type (or refused for a known one), or it depends on unsigned fields of the entry",
				Tags: []string{fmt.Sprintf("sct-input:ok=%v", serr == nil)},
			})
			if serr == nil && etype <= 1 && entry.Leaf.TimestampedEntry == &vte {
				w.Add(lib.Case{
					Coq:    fmt.Sprintf("CRfcSctInput %s %s %s %s", lib.Nn(ts), entryCoq, lib.Bytes(ext), lib.Bytes(sb)),
					Input:  map[string]interface{}{"op": "rfc-sct-siginput", "precert": precert},
					Impl:   map[string]interface{}{"len": len(sb)},
					PropOK: true, Tags: []string{"rfc-sct-input"},
				})
			}
		case 3: // STH signature input; API message conversions
			ts, size := r.Uint64(), r.Uint64()
			var root ct.SHA256Hash
			copy(root[:], payload(r, 32))
			version := ct.V1
			if r.Intn(5) == 0 {
				version = ct.Version(1 + r.Intn(255))
			}
			sb, serr := ct.SerializeSTHSignatureInput(ct.SignedTreeHead{Version: version, Timestamp: ts, TreeSize: size, SHA256RootHash: root})
			so := "ErrStruct"
			if serr == nil {
				so = "Ok " + lib.Bytes(sb)
				w.Add(lib.Case{
					Coq:    fmt.Sprintf("CRfcSthInput %s %s %s %s", lib.Nn(ts), lib.Nn(size), lib.Bytes(root[:]), lib.Bytes(sb)),
					Input:  map[string]interface{}{"op": "rfc-sth-siginput"},
					Impl:   map[string]interface{}{"len": len(sb)},
					PropOK: true, Tags: []string{"rfc-sth-input"},
				})
			}
			w.Add(lib.Case{
				Coq:    fmt.Sprintf("CSthInput %s %s %s %s (%s)", lib.Nn(uint64(version)), lib.Nn(ts), lib.Nn(size), lib.Bytes(root[:]), so),
				Input:  map[string]interface{}{"op": "sth-siginput", "version": version},
				Impl:   map[string]interface{}{"ok": serr == nil},
				PropOK: (serr == nil) == (version == ct.V1), Note: "STH signature input for unknown version",
				Tags: []string{fmt.Sprintf("sth-input:ok=%v", serr == nil)},
			})
			// ToSignedCertificateTimestamp / ToSignedTreeHead with good and bad parts, through JSON
			ds := tls.DigitallySigned{Algorithm: tls.SignatureAndHashAlgorithm{Hash: tls.HashAlgorithm(r.Intn(256)), Signature: tls.SignatureAlgorithm(r.Intn(256))},
				Signature: payload(r, []int{0, 1, 70, 255, 256}[r.Intn(5)])}
			sig, _ := tls.Marshal(ds)
			switch r.Intn(4) {
			case 0:
				sig = append(sig, 0)
			case 1:
				if len(sig) > 0 {
					sig = sig[:len(sig)-1]
				}
			}
			id := payload(r, []int{32, 32, 32, 31, 33, 0}[r.Intn(6)])
			extRaw := payload(r, r.Intn(20))
			extStr := base64.StdEncoding.EncodeToString(extRaw)
			extCoq := lib.Some(lib.Bytes(extRaw))
			if r.Intn(5) == 0 {
				extStr = extStr + "!"
				extCoq = "None"
			}
			rsp := ct.AddChainResponse{SCTVersion: ct.Version(r.Intn(2)), ID: id, Timestamp: ts, Extensions: extStr, Signature: sig}
			// the message really travels as JSON: encode and decode it first
			js, _ := json.Marshal(&rsp)
			var rsp2 ct.AddChainResponse
			jerr := json.Unmarshal(js, &rsp2)
			jsonOK := jerr == nil && reflect.DeepEqual(normalizeRsp(rsp), normalizeRsp(rsp2))
			sct, cerr := rsp2.ToSignedCertificateTimestamp()
			co := "ErrStruct"
			// the drawn parts themselves are the reference (see also convsweep.go)
			sctOK := cerr != nil || (string(sct.LogID.KeyID[:]) == string(id) && sct.Timestamp == ts && sct.SCTVersion == rsp.SCTVersion &&
				extCoq != "None" && string(sct.Extensions) == string(extRaw))
			if cerr == nil {
				d := tlsgen.FromGoType(reflect.TypeOf(*sct))
				co = "Ok " + tlsgen.ValCoq(d, reflect.ValueOf(*sct))
			}
			w.Add(lib.Case{
				Coq:    fmt.Sprintf("CToSct %s %s %s %s %s (%s)", lib.Nn(uint64(rsp.SCTVersion)), lib.Bytes(id), lib.Nn(ts), extCoq, lib.Bytes(sig), co),
				Input:  map[string]interface{}{"op": "to-sct", "id_len": len(id), "ext_ok": extCoq != "None", "ext_len": len(extRaw), "sig_len": len(sig), "json": clip(string(js))},
				Impl:   map[string]interface{}{"ok": cerr == nil},
				PropOK: jsonOK && sctOK, Note: "AddChainResponse does not survive JSON, or ToSignedCertificateTimestamp alters the drawn id / timestamp / extensions", Tags: []string{fmt.Sprintf("to-sct:ok=%v", cerr == nil)},
			})
			rootB := payload(r, []int{32, 32, 31, 33}[r.Intn(4)])
			srsp := ct.GetSTHResponse{TreeSize: size, Timestamp: ts, SHA256RootHash: rootB, TreeHeadSignature: sig}
			js2, _ := json.Marshal(&srsp)
			var srsp2 ct.GetSTHResponse
			jerr2 := json.Unmarshal(js2, &srsp2)
			sth, therr := srsp2.ToSignedTreeHead()
			to := "ErrStruct"
			if therr == nil {
				d := tlsgen.FromGoType(reflect.TypeOf(sth.TreeHeadSignature))
				to = fmt.Sprintf("Ok (%s, %s, %s, %s)", lib.Nn(sth.TreeSize), lib.Nn(sth.Timestamp), lib.Bytes(sth.SHA256RootHash[:]), tlsgen.ValCoq(d, reflect.ValueOf(sth.TreeHeadSignature)))
			}
			w.Add(lib.Case{
				Coq:    fmt.Sprintf("CToSth %s %s %s %s (%s)", lib.Nn(size), lib.Nn(ts), lib.Bytes(rootB), lib.Bytes(sig), to),
				Input:  map[string]interface{}{"op": "to-sth", "root_len": len(rootB), "sig_len": len(sig)},
				Impl:   map[string]interface{}{"ok": therr == nil},
				PropOK: jerr2 == nil && string(srsp2.SHA256RootHash) == string(rootB) && srsp2.TreeSize == size, Note: "GetSTHResponse does not survive JSON",
				Tags: []string{fmt.Sprintf("to-sth:ok=%v", therr == nil)},
			})
			// the JSON forms of the structures themselves: ct.DigitallySigned and ct.SHA256Hash travel as
			// base64 strings (e.g. inside ct.SignedTreeHead); decoding promises a complete parse
			{
				b64 := base64.StdEncoding.EncodeToString(sig)
				var d ct.DigitallySigned
				jerr := json.Unmarshal([]byte(`"`+b64+`"`), &d)
				var d2 ct.DigitallySigned
				ferr := d2.FromBase64String(b64)
				// independent reading of RFC 5246 4.7: hash, signature, 2-byte length, exactly that many bytes
				exact := len(sig) >= 4 && int(sig[2])<<8|int(sig[3]) == len(sig)-4
				do := "ErrStruct"
				ok, note := true, ""
				if jerr == nil {
					dd := tlsgen.FromGoType(reflect.TypeOf(tls.DigitallySigned(d)))
					do = "Ok " + tlsgen.ValCoq(dd, reflect.ValueOf(tls.DigitallySigned(d)))
					if back, berr := json.Marshal(d); berr != nil || string(back) != `"`+b64+`"` {
						ok, note = false, "ct.DigitallySigned does not survive JSON"
					}
				}
				if (jerr == nil) != exact || (ferr == nil) != exact {
					ok, note = false, fmt.Sprintf("ct.DigitallySigned JSON / FromBase64String accept=%v/%v for a byte string that is exactly one DigitallySigned: %v (%d bytes)", jerr == nil, ferr == nil, exact, len(sig))
				}
				w.Add(lib.Case{
					Coq:    fmt.Sprintf("CComplete gen_DigitallySigned %s (%s)", lib.Bytes(sig), do),
					Input:  map[string]interface{}{"op": "json-digitally-signed", "sig_len": len(sig), "exact": exact},
					Impl:   map[string]interface{}{"json_ok": jerr == nil, "from_base64_ok": ferr == nil},
					PropOK: ok, Note: note, Tags: []string{fmt.Sprintf("json-ds:exact=%v:ok=%v", exact, jerr == nil)},
				})
				// a whole ct.SignedTreeHead through JSON
				hb := payload(r, []int{32, 32, 32, 31, 33, 0}[r.Intn(6)])
				doc := fmt.Sprintf(`{"sth_version":0,"tree_size":%d,"timestamp":%d,"sha256_root_hash":%q,"tree_head_signature":%q,"log_id":%q}`,
					size, ts, base64.StdEncoding.EncodeToString(hb), b64, base64.StdEncoding.EncodeToString(id))
				var sthJ ct.SignedTreeHead
				serr := json.Unmarshal([]byte(doc), &sthJ)
				wantOK := exact && len(hb) == 32 && len(id) == 32
				ok2, note2 := true, ""
				if (serr == nil) != wantOK {
					ok2, note2 = false, fmt.Sprintf("ct.SignedTreeHead JSON accept=%v (root hash %d bytes, log id %d bytes, signature exact=%v)", serr == nil, len(hb), len(id), exact)
				}
				if serr == nil {
					if sthJ.TreeSize != size || sthJ.Timestamp != ts || string(sthJ.SHA256RootHash[:]) != string(hb) || string(sthJ.LogID[:]) != string(id) {
						ok2, note2 = false, "ct.SignedTreeHead JSON decodes to other field values"
					}
					back, _ := json.Marshal(&sthJ)
					var again ct.SignedTreeHead
					if err := json.Unmarshal(back, &again); err != nil || !reflect.DeepEqual(again, sthJ) {
						ok2, note2 = false, "ct.SignedTreeHead does not survive JSON"
					}
				}
				w.Add(lib.Case{
					Coq:    fmt.Sprintf("CComplete gen_DigitallySigned %s (%s)", lib.Bytes(sig), do),
					Key:    fmt.Sprintf("json-sth-%d", i),
					Input:  map[string]interface{}{"op": "json-signed-tree-head", "root_len": len(hb), "id_len": len(id), "sig_exact": exact},
					Impl:   map[string]interface{}{"ok": serr == nil},
					PropOK: ok2, Note: note2, Tags: []string{fmt.Sprintf("json-sth:ok=%v", serr == nil)},
				})
			}
		default: // RawLogEntryFromLeaf on valid and perturbed (leaf_input, extra_data)
			precert := r.Intn(2) == 0
			var chain []ct.ASN1Cert
			for k := r.Intn(4); k > 0; k-- {
				chain = append(chain, ct.ASN1Cert{Data: payload(r, 1+r.Intn(40))})
			}
			leaf := ct.MerkleTreeLeaf{Version: ct.V1, LeafType: ct.TimestampedEntryLeafType,
				TimestampedEntry: &ct.TimestampedEntry{Timestamp: r.Uint64(), Extensions: payload(r, r.Intn(3))}}
			var extra []byte
			if precert {
				leaf.TimestampedEntry.EntryType = ct.PrecertLogEntryType
				leaf.TimestampedEntry.PrecertEntry = &ct.PreCert{TBSCertificate: payload(r, 1+r.Intn(50))}
				extra, _ = tls.Marshal(ct.PrecertChainEntry{PreCertificate: ct.ASN1Cert{Data: payload(r, 1+r.Intn(50))}, CertificateChain: chain})
			} else {
				leaf.TimestampedEntry.EntryType = ct.X509LogEntryType
				leaf.TimestampedEntry.X509Entry = &ct.ASN1Cert{Data: payload(r, 1+r.Intn(50))}
				extra, _ = tls.Marshal(ct.CertificateChain{Entries: chain})
			}
			mut := "none"
			switch r.Intn(8) {
			case 0:
				leaf.TimestampedEntry.EntryType, leaf.TimestampedEntry.X509Entry, leaf.TimestampedEntry.PrecertEntry = ct.LogEntryType(32768), nil, nil
				leaf.TimestampedEntry.JSONEntry = &ct.JSONDataEntry{Data: []byte("{}")}
				mut = "json-entry-type"
			case 1:
				leaf.LeafType = ct.MerkleLeafType(1 + r.Intn(200))
				mut = "leaf-type"
			}
			li, lerr := tls.Marshal(leaf)
			if lerr != nil && mut != "leaf-type" {
				w.Add(lib.Case{
					Coq:    "CRawEntry [] [] ErrStruct",
					Key:    fmt.Sprintf("raw-entry-marshal-refused-%d", i),
					Input:  map[string]interface{}{"op": "raw-entry", "mutation": mut},
					Impl:   map[string]interface{}{"error": lerr.Error()},
					PropOK: false, Note: fmt.Sprintf("tls.Marshal refuses a well-formed MerkleTreeLeaf: %v", lerr), Tags: []string{"raw-entry:refused"},
				})
				continue
			}
			if lerr != nil { // build the bytes by hand for an unknown leaf type
				leaf.LeafType = ct.TimestampedEntryLeafType
				li, _ = tls.Marshal(leaf)
				li[1] = byte(1 + r.Intn(200))
			}
			switch r.Intn(8) {
			case 0:
				li = append(li, byte(r.Intn(256)))
				mut = "leaf-trailing"
			case 1:
				extra = append(extra, 0)
				mut = "extra-trailing"
			case 2:
				if len(extra) > 0 {
					extra = extra[:len(extra)-1]
					mut = "extra-truncated"
				}
			case 3:
				if precert { // swap: x509-style extra data on a precert leaf
					extra, _ = tls.Marshal(ct.CertificateChain{Entries: chain})
					mut = "extra-wrong-kind"
				}
			}
			var rle *ct.RawLogEntry
			var rerr error
			pan := try(func() { rle, rerr = ct.RawLogEntryFromLeaf(7, &ct.LeafEntry{LeafInput: li, ExtraData: extra}) })
			o := "ErrStruct"
			propOK, note := !pan, ""
			if pan {
				o, note = "Panic", "RawLogEntryFromLeaf panics"
			} else if rerr == nil {
				dl := tlsgen.FromGoType(reflect.TypeOf(rle.Leaf))
				dc := tlsgen.FromGoType(reflect.TypeOf(rle.Cert))
				var cs []string
				for _, c := range rle.Chain {
					cs = append(cs, tlsgen.ValCoq(dc, reflect.ValueOf(c)))
				}
				o = fmt.Sprintf("Ok (%s, %s, VList %s)", tlsgen.ValCoq(dl, reflect.ValueOf(rle.Leaf)), tlsgen.ValCoq(dc, reflect.ValueOf(rle.Cert)), lib.List(cs))
				if mut != "none" && mut != "extra-wrong-kind" {
					propOK, note = false, "RawLogEntryFromLeaf accepted a perturbed entry: "+mut
				}
			} else if mut == "none" {
				propOK, note = false, "RawLogEntryFromLeaf refused a well-formed entry"
			}
			w.Add(lib.Case{
				Coq:    fmt.Sprintf("CRawEntry %s %s (%s)", lib.Bytes(li), lib.Bytes(extra), o),
				Input:  map[string]interface{}{"op": "raw-entry", "precert": precert, "mutation": mut, "chain": len(chain)},
				Impl:   map[string]interface{}{"ok": rerr == nil && !pan},
				PropOK: propOK, Note: note, Tags: []string{"raw-entry:" + mut + fmt.Sprintf(":ok=%v", rerr == nil)},
			})
		}
	}
	// leaf sizes: powers of two and a dense range (sweep.go)
	leafSizes(r, w, lib.Count(1<<13+2, 1<<16+2))
	// class "JSON representations" (jsonrep.go)
	for round := lib.Count(2, 25); round > 0; round-- {
		jsonRepresentations(r, w, round)
	}
	// class "vector length bounds" (bounds.go)
	for round := lib.Count(2, 6); round > 0; round-- {
		vectorBounds(r, w, round)
	}
	// class "JSON message -> structure conversions" (convsweep.go); own generator, so that the streams
	// above keep their draws
	conversionSweep(mrand.New(mrand.NewSource(lib.Seed()^0x0c04)), w)
	w.Close()
	fmt.Printf("c04: wrote %d cases\n", w.Len())
}

func normalizeRsp(r ct.AddChainResponse) ct.AddChainResponse {
	if len(r.ID) == 0 {
		r.ID = nil
	}
	if len(r.Signature) == 0 {
		r.Signature = nil
	}
	return r
}
