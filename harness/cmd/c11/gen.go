package main

// Generated well-formed documents: certificates (verif/harness/pki), CRLs, keys in every
// container the package parses, certificate requests.

import (
	"crypto"
	"crypto/ecdsa"
	"crypto/ed25519"
	"crypto/elliptic"
	"crypto/rand"
	"crypto/rsa"
	stdx509 "crypto/x509"
	"math/big"
	"net"
	"time"

	"github.com/google/certificate-transparency-go/asn1"
	"github.com/google/certificate-transparency-go/x509"
	"github.com/google/certificate-transparency-go/x509/pkix"

	"verif/harness/pki"
)

func newP224() crypto.Signer {
	k, err := ecdsa.GenerateKey(elliptic.P224(), rand.Reader)
	if err != nil {
		panic(err)
	}
	return k
}

func must(b []byte, err error) []byte {
	if err != nil {
		panic(err)
	}
	return b
}

func generatedDocs() []doc {
	var out []doc
	root := pki.Issue(pki.Opts{CN: "gen root", IsCA: true, KeyKind: "p256"}, nil)
	rsaRoot := pki.Issue(pki.Opts{CN: "gen rsa root", IsCA: true, KeyKind: "rsa2048"}, nil)
	inter := pki.Issue(pki.Opts{CN: "gen inter", IsCA: true, KeyKind: "p384", KeyIdx: 1}, root)
	leaf := pki.Issue(pki.Opts{CN: "gen leaf", KeyKind: "p256", KeyIdx: 2, DNSNames: []string{"leaf.example", "*.leaf.example"},
		EKUs: []x509.ExtKeyUsage{x509.ExtKeyUsageServerAuth, x509.ExtKeyUsageClientAuth}}, inter)
	pre := pki.Issue(pki.Opts{CN: "gen precert", KeyKind: "p256", KeyIdx: 3, ExtraExt: []pkix.Extension{pki.PoisonExt()}}, inter)
	rich := pki.Issue(pki.Opts{CN: "gen rich", KeyKind: "rsa2048", KeyIdx: 1, Mutate: func(t *x509.Certificate) {
		t.IPAddresses = []net.IP{net.ParseIP("192.0.2.7").To4(), net.ParseIP("2001:db8::7")}
		t.EmailAddresses = []string{"a@example.com"}
		t.OCSPServer, t.IssuingCertificateURL = []string{"http://ocsp.example"}, []string{"http://ca.example/ca.cer"}
		t.CRLDistributionPoints = []string{"http://crl.example/x.crl"}
		t.PolicyIdentifiers = []asn1.ObjectIdentifier{{2, 23, 140, 1, 2, 1}}
		t.Subject.Country, t.Subject.Locality = []string{"CH"}, []string{"Zürich"}
	}}, rsaRoot)
	nc := pki.Issue(pki.Opts{CN: "gen nc", IsCA: true, KeyKind: "p256", KeyIdx: 4, Mutate: func(t *x509.Certificate) {
		t.PermittedDNSDomainsCritical = true
		t.PermittedDNSDomains, t.ExcludedDNSDomains = []string{"example.com"}, []string{"bad.example.com"}
		_, n, _ := net.ParseCIDR("10.0.0.0/8")
		t.PermittedIPRanges = []*net.IPNet{n}
	}}, root)
	ed := pki.Issue(pki.Opts{CN: "gen ed25519", KeyKind: "ed25519"}, root)
	late := pki.Issue(pki.Opts{CN: "gen 2050", KeyKind: "p256", KeyIdx: 5, NotBefore: time.Date(2049, 12, 31, 23, 59, 59, 0, time.UTC),
		NotAfter: time.Date(2060, 1, 1, 0, 0, 0, 0, time.UTC)}, inter)
	for _, e := range []struct {
		n string
		e *pki.Entity
	}{{"root", root}, {"rsaRoot", rsaRoot}, {"inter", inter}, {"leaf", leaf}, {"precert", pre}, {"rich", rich}, {"nc", nc}, {"ed25519", ed}, {"late", late}} {
		out = append(out, doc{"cert", "generated/" + e.n, e.e.DER})
	}

	// CRLs: empty, with entries, with entry extensions, issued by RSA and ECDSA
	now, next := time.Date(2024, 1, 1, 0, 0, 0, 0, time.UTC), time.Date(2051, 1, 1, 0, 0, 0, 0, time.UTC)
	reason, _ := asn1.Marshal(asn1.Enumerated(1))
	revoked := []pkix.RevokedCertificate{
		{SerialNumber: big.NewInt(5), RevocationTime: now},
		{SerialNumber: new(big.Int).Lsh(big.NewInt(1), 70), RevocationTime: now.Add(time.Hour),
			Extensions: []pkix.Extension{{Id: asn1.ObjectIdentifier{2, 5, 29, 21}, Value: reason}}},
	}
	out = append(out, doc{"crl", "generated/crl-empty", must(root.Cert.CreateCRL(rand.Reader, root.Key, nil, now, next))})
	out = append(out, doc{"crl", "generated/crl-two", must(root.Cert.CreateCRL(rand.Reader, root.Key, revoked, now, next))})
	out = append(out, doc{"crl", "generated/crl-rsa", must(rsaRoot.Cert.CreateCRL(rand.Reader, rsaRoot.Key, revoked[:1], now, now.Add(24*time.Hour)))})

	// keys
	rk := pki.Key("rsa2048", 0).(*rsa.PrivateKey)
	rk1 := pki.Key("rsa1024", 0).(*rsa.PrivateKey)
	for i, k := range []*rsa.PrivateKey{rk, rk1} {
		out = append(out, doc{"pkcs1", []string{"generated/rsa2048", "generated/rsa1024"}[i] + "/pkcs1", x509.MarshalPKCS1PrivateKey(k)})
		out = append(out, doc{"pkcs1pub", []string{"generated/rsa2048", "generated/rsa1024"}[i] + "/pkcs1pub", x509.MarshalPKCS1PublicKey(&k.PublicKey)})
		out = append(out, doc{"pkcs8", []string{"generated/rsa2048", "generated/rsa1024"}[i] + "/pkcs8", must(x509.MarshalPKCS8PrivateKey(k))})
		out = append(out, doc{"pub", []string{"generated/rsa2048", "generated/rsa1024"}[i] + "/pkix", must(x509.MarshalPKIXPublicKey(&k.PublicKey))})
	}
	for _, c := range []struct {
		n string
		c elliptic.Curve
	}{{"p224", elliptic.P224()}, {"p256", elliptic.P256()}, {"p384", elliptic.P384()}, {"p521", elliptic.P521()}} {
		k, err := ecdsa.GenerateKey(c.c, rand.Reader)
		if err != nil {
			panic(err)
		}
		out = append(out, doc{"ec", "generated/" + c.n + "/sec1", must(x509.MarshalECPrivateKey(k))})
		out = append(out, doc{"pkcs8", "generated/" + c.n + "/pkcs8", must(x509.MarshalPKCS8PrivateKey(k))})
		out = append(out, doc{"pub", "generated/" + c.n + "/pkix", must(x509.MarshalPKIXPublicKey(&k.PublicKey))})
		// the same key from the standard library's encoders
		out = append(out, doc{"ec", "generated/" + c.n + "/sec1-std", must(stdx509.MarshalECPrivateKey(k))})
		out = append(out, doc{"pkcs8", "generated/" + c.n + "/pkcs8-std", must(stdx509.MarshalPKCS8PrivateKey(k))})
	}
	edPub, edPriv, _ := ed25519.GenerateKey(rand.Reader)
	out = append(out, doc{"pkcs8", "generated/ed25519/pkcs8", must(x509.MarshalPKCS8PrivateKey(edPriv))})
	out = append(out, doc{"pub", "generated/ed25519/pkix", must(x509.MarshalPKIXPublicKey(edPub))})

	// certificate requests
	for _, k := range []struct {
		n string
		k crypto.Signer
	}{{"p256", pki.Key("p256", 6)}, {"rsa2048", rk}, {"ed25519", edPriv}} {
		t := &x509.CertificateRequest{Subject: pkix.Name{CommonName: "csr " + k.n, Organization: []string{"verif"}},
			DNSNames: []string{"csr.example"}, EmailAddresses: []string{"csr@example.com"}, IPAddresses: []net.IP{net.ParseIP("192.0.2.9").To4()}}
		out = append(out, doc{"csr", "generated/csr-" + k.n, must(x509.CreateCertificateRequest(rand.Reader, t, k.k))})
		t2 := &x509.CertificateRequest{Subject: pkix.Name{CommonName: "plain " + k.n}}
		out = append(out, doc{"csr", "generated/csr-plain-" + k.n, must(x509.CreateCertificateRequest(rand.Reader, t2, k.k))})
	}
	return out
}
