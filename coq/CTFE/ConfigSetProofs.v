(* C15: lemmas about CTFE/ConfigModel.v - configuration sets, multi-backend configurations,
   configuration files. *)
From Coq Require Import ZArith Bool List String Ascii Lia ZifyBool.
From V Require Import Base.GoInt gen.Config gen.ConfigTables CTFE.ConfigModel CTFE.ConfigProofs.
Import ListNotations.
Open Scope string_scope.
Open Scope Z_scope.
Open Scope bool_scope.

Section Sets.
  Variable mysql_dsn_ok : string -> bool.
  Variable pg_config_ok : string -> bool.
  Notation validate_log_config := (validate_log_config mysql_dsn_ok pg_config_ok).
  Notation wellformed_log := (wellformed_log mysql_dsn_ok pg_config_ok).
  Notation validate_configs_from := (validate_configs_from mysql_dsn_ok pg_config_ok).
  Notation validate_configs := (validate_configs mysql_dsn_ok pg_config_ok).
  Notation validate_log_configs := (validate_log_configs mysql_dsn_ok pg_config_ok).
  Notation validate_log_multi_config := (validate_log_multi_config mysql_dsn_ok pg_config_ok).
  Notation wellformed_configs := (wellformed_configs mysql_dsn_ok pg_config_ok).
  Notation wellformed_multi := (wellformed_multi mysql_dsn_ok pg_config_ok).

  (* ---------------------------------------------------------------- validateConfigs *)

  Lemma validate_configs_from_iff cfgs : forall seen,
    validate_configs_from seen cfgs = Accept <->
    Forall wellformed_log cfgs /\ Forall (fun c => lc_prefix c <> "") cfgs /\
    fresh_from mem_str seen (map lc_prefix cfgs) = true.
  Proof.
    induction cfgs as [|c r IH]; intros seen; simpl.
    - split; [intros _; repeat split; constructor | reflexivity].
    - destruct (validate_log_config c) eqn:Ev.
      + apply validate_log_config_iff in Ev. unfold c_empty_prefix.
        destruct (slen (lc_prefix c) =? 0) eqn:Ep.
        * apply slen_zero in Ep. split; [discriminate | intros [_ [H _]]]. inversion H; subst. contradiction.
        * apply slen_zero_false in Ep. destruct (mem_str (lc_prefix c) seen) eqn:Em; simpl.
          -- split; [discriminate | intros [_ [_ H]]; discriminate].
          -- rewrite IH. split.
             ++ intros [Hw [Hp Hf]]. repeat split; try constructor; assumption.
             ++ intros [Hw [Hp Hf]]. inversion Hw; inversion Hp; subst. repeat split; assumption.
      + split; [discriminate | intros [H _]]. inversion H as [|? ? Hc _]; subst.
        apply validate_log_config_iff in Hc. congruence.
      + split; [discriminate | intros [H _]]. inversion H as [|? ? Hc _]; subst.
        apply validate_log_config_iff in Hc. congruence.
  Qed.

  Lemma validate_configs_iff cfgs :
    validate_configs cfgs = Accept <-> Forall wellformed_log cfgs /\ wf_prefixes cfgs.
  Proof.
    unfold validate_configs, wf_prefixes. rewrite validate_configs_from_iff.
    rewrite (fresh_from_nil mem_str mem_str_In). tauto.
  Qed.

  Lemma validate_configs_from_no_panic cfgs : forall seen, validate_configs_from seen cfgs <> Panic.
  Proof.
    induction cfgs as [|c r IH]; intros seen; simpl; [discriminate|].
    pose proof (validate_log_config_no_panic mysql_dsn_ok pg_config_ok c) as Hc.
    destruct (validate_log_config c); try congruence; try discriminate.
    destruct (c_empty_prefix _); [discriminate|]. destruct (mem_str _ _); [discriminate | apply IH].
  Qed.

  (* ---------------------------------------------------------------- ValidateLogConfigs *)

  Lemma tree_ids_unique_from_iff cfgs : forall seen,
    tree_ids_unique_from seen cfgs = Accept <-> fresh_from mem_Z seen (map lc_log_id cfgs) = true.
  Proof.
    induction cfgs as [|c r IH]; intros seen; simpl; [tauto|].
    destruct (mem_Z (lc_log_id c) seen); simpl; [split; discriminate | apply IH].
  Qed.

  Lemma tree_ids_unique_from_no_panic cfgs : forall seen, tree_ids_unique_from seen cfgs <> Panic.
  Proof.
    induction cfgs as [|c r IH]; intros seen; simpl; [discriminate|].
    destruct (mem_Z _ _); [discriminate | apply IH].
  Qed.

  Lemma validate_log_configs_iff cfgs : validate_log_configs cfgs = Accept <-> wellformed_configs cfgs.
  Proof.
    unfold validate_log_configs, wellformed_configs.
    rewrite seq_accept, validate_configs_iff, tree_ids_unique_from_iff, (fresh_from_nil mem_Z mem_Z_In). tauto.
  Qed.

  Lemma validate_log_configs_no_panic cfgs : validate_log_configs cfgs <> Panic.
  Proof.
    unfold validate_log_configs. apply seq_no_panic;
      [apply validate_configs_from_no_panic | apply tree_ids_unique_from_no_panic].
  Qed.

  (* ---------------------------------------------------------------- BuildLogBackendMap *)

  Lemma bbm_from_iff bes : forall names specs ns,
    bbm_from names specs bes = Some ns <->
    Forall (fun be => be_name be <> "" /\ be_spec be <> "") bes /\
    fresh_from mem_str names (map be_name bes) = true /\
    fresh_from mem_str specs (map be_spec bes) = true /\
    ns = (rev (map be_name bes) ++ names)%list.
  Proof.
    induction bes as [|be r IH]; intros names specs ns; simpl.
    - split; [intros H; inversion H; subst; repeat split; constructor | intros [_ [_ [_ H]]]; subst; reflexivity].
    - unfold c_empty_backend_name, c_empty_backend_spec.
      destruct (slen (be_name be) =? 0) eqn:En.
      { apply slen_zero in En. split; [discriminate | intros [H _]]. inversion H as [|? ? [Hn _] _]; subst. contradiction. }
      destruct (slen (be_spec be) =? 0) eqn:Es.
      { apply slen_zero in Es. split; [discriminate | intros [H _]]. inversion H as [|? ? [_ Hs] _]; subst. contradiction. }
      apply slen_zero_false in En. apply slen_zero_false in Es.
      destruct (mem_str (be_name be) names) eqn:Emn; simpl.
      { split; [discriminate | intros [_ [H _]]; discriminate]. }
      destruct (mem_str (be_spec be) specs) eqn:Ems; simpl.
      { split; [discriminate | intros [_ [_ [H _]]]; discriminate]. }
      rewrite IH. rewrite <- app_assoc. simpl. split.
      + intros [Hf [Hn [Hs Hns]]]. repeat split; try constructor; auto.
      + intros [Hf [Hn [Hs Hns]]]. inversion Hf; subst. repeat split; auto.
  Qed.

  Lemma build_backend_map_ok lbs ns :
    build_backend_map lbs = BOk ns <->
    exists bes, lbs = Some bes /\ wf_backends bes /\ ns = rev (map be_name bes).
  Proof.
    unfold build_backend_map, c_backend_set_absent, present, wf_backends.
    destruct lbs as [bes|]; simpl.
    - destruct (bbm_from [] [] bes) as [ns'|] eqn:E.
      + apply bbm_from_iff in E. destruct E as [Hf [Hn [Hs Hns]]]. rewrite app_nil_r in Hns.
        apply (fresh_from_nil mem_str mem_str_In) in Hn. apply (fresh_from_nil mem_str mem_str_In) in Hs.
        split.
        * intros H; inversion H; subst. exists bes. repeat split; auto.
        * intros [bes' [Hb [_ Hns']]]. inversion Hb; subst. reflexivity.
      + split; [discriminate | intros [bes' [Hb [[Hf [Hn Hs]] Hns]]]]. inversion Hb; subst bes'.
        assert (bbm_from [] [] bes = Some (rev (map be_name bes) ++ [])%list) as H.
        { apply bbm_from_iff. repeat split; auto; apply (fresh_from_nil mem_str mem_str_In); assumption. }
        congruence.
    - split; [discriminate | intros [bes [H _]]; discriminate].
  Qed.

  Lemma build_backend_map_no_panic lbs : build_backend_map lbs <> BPanic.
  Proof.
    unfold build_backend_map, c_backend_set_absent, present.
    destruct lbs as [bes|]; simpl; [destruct (bbm_from [] [] bes)|]; discriminate.
  Qed.

  (* ---------------------------------------------------------------- ValidateLogMultiConfig *)

  Lemma check_backend_refs_iff names cfgs : forall seen,
    check_backend_refs names seen cfgs = Accept <->
    Forall (fun c => In (lc_backend_name c) names) cfgs /\
    fresh_from mem_key seen (map log_id_key cfgs) = true.
  Proof.
    induction cfgs as [|c r IH]; intros seen; simpl.
    - split; [intros _; split; [constructor | reflexivity] | reflexivity].
    - destruct (mem_str (lc_backend_name c) names) eqn:Em; simpl.
      + apply mem_str_In in Em. destruct (mem_key (log_id_key c) seen) eqn:Ek; simpl.
        * split; [discriminate | intros [_ H]; discriminate].
        * rewrite IH. split; [intros [Hf Hk]; split; [constructor; assumption | assumption]
                              | intros [Hf Hk]; inversion Hf; subst; split; assumption].
      + apply mem_str_false in Em. split; [discriminate | intros [H _]]. inversion H; subst. contradiction.
  Qed.

  Lemma check_backend_refs_no_panic names cfgs : forall seen, check_backend_refs names seen cfgs <> Panic.
  Proof.
    induction cfgs as [|c r IH]; intros seen; simpl; [discriminate|].
    destruct (negb _); [discriminate|]. destruct (mem_key _ _); [discriminate | apply IH].
  Qed.

  Lemma validate_log_multi_config_iff m : validate_log_multi_config m = Accept <-> wellformed_multi m.
  Proof.
    unfold validate_log_multi_config, wellformed_multi, c_log_configs_absent, present.
    destruct (build_backend_map (mc_backends m)) as [ns| |] eqn:Eb.
    - apply build_backend_map_ok in Eb. destruct Eb as [bes [Hbes [Hwb Hns]]].
      destruct (mc_log_configs m) as [cfgs|] eqn:Ec; simpl.
      + unfold get_configs. rewrite Ec. rewrite seq_accept, validate_configs_iff, check_backend_refs_iff.
        rewrite (fresh_from_nil mem_key mem_key_In). subst ns. split.
        * intros [[Hw Hp] [Hr Hk]]. exists bes, cfgs.
          split; [exact Hbes|]. split; [reflexivity|]. split; [exact Hwb|]. split; [exact Hw|].
          split; [exact Hp|]. split; [| exact Hk].
          eapply Forall_impl; [| exact Hr]. intros c Hc. cbv beta in Hc. apply in_rev in Hc. exact Hc.
        * intros [bes' [cfgs' [Hb' [Hc' [_ [Hw [Hp [Hr Hk]]]]]]]].
          rewrite Hbes in Hb'. inversion Hb'; inversion Hc'; subst bes' cfgs'.
          split; [split; [exact Hw | exact Hp]|]. split; [| exact Hk].
          eapply Forall_impl; [| exact Hr]. intros c Hc. cbv beta in Hc. apply in_rev. rewrite rev_involutive. exact Hc.
      + split; [discriminate | intros [bes' [cfgs' [_ [H _]]]]; discriminate].
    - split; [discriminate | intros [bes [cfgs [Hb [_ [Hwb _]]]]]].
      assert (build_backend_map (mc_backends m) = BOk (rev (map be_name bes))) as H.
      { apply build_backend_map_ok. exists bes. auto. }
      congruence.
    - exfalso. exact (build_backend_map_no_panic _ Eb).
  Qed.

  Lemma validate_log_multi_config_no_panic m : validate_log_multi_config m <> Panic.
  Proof.
    unfold validate_log_multi_config, c_log_configs_absent, present.
    destruct (build_backend_map (mc_backends m)) as [ns| |] eqn:Eb; try discriminate.
    - destruct (mc_log_configs m) as [cfgs|]; simpl; [| discriminate].
      apply seq_no_panic; [apply validate_configs_from_no_panic | apply check_backend_refs_no_panic].
    - exfalso. exact (build_backend_map_no_panic _ Eb).
  Qed.

  (* ---------------------------------------------------------------- files *)

  Lemma file_single_no_panic parsed : file_single mysql_dsn_ok pg_config_ok parsed <> Panic.
  Proof.
    unfold file_single. destruct (log_config_from_file parsed); [apply validate_log_configs_no_panic | discriminate].
  Qed.

  Lemma file_single_as_multi_no_panic parsed spec :
    file_single_as_multi mysql_dsn_ok pg_config_ok parsed spec <> Panic.
  Proof.
    unfold file_single_as_multi.
    destruct (log_config_from_file parsed); [apply validate_log_multi_config_no_panic | discriminate].
  Qed.

  Lemma file_multi_no_panic parsed : file_multi mysql_dsn_ok pg_config_ok parsed <> Panic.
  Proof.
    unfold file_multi.
    destruct (multi_log_config_from_file parsed); [apply validate_log_multi_config_no_panic | discriminate].
  Qed.

  Lemma all_entry_points_total :
    (forall c, validate_log_config c <> Panic) /\
    (forall cfgs, validate_log_configs cfgs <> Panic) /\
    (forall lbs, build_backend_map lbs <> BPanic) /\
    (forall m, validate_log_multi_config m <> Panic) /\
    (forall p, file_single mysql_dsn_ok pg_config_ok p <> Panic) /\
    (forall p spec, file_single_as_multi mysql_dsn_ok pg_config_ok p spec <> Panic) /\
    (forall p, file_multi mysql_dsn_ok pg_config_ok p <> Panic).
  Proof.
    repeat split; intros.
    - apply validate_log_config_no_panic.
    - apply validate_log_configs_no_panic.
    - apply build_backend_map_no_panic.
    - apply validate_log_multi_config_no_panic.
    - apply file_single_no_panic.
    - apply file_single_as_multi_no_panic.
    - apply file_multi_no_panic.
  Qed.
End Sets.
