(* C02 - precertificate classification, endpoint/kind match, no panics, fuel sufficiency. *)
From Coq Require Import ZArith NArith Bool List Lia.
From V Require Import Base.GoInt gen.Windows Temporal.WindowModel
  CTFE.ChainModel CTFE.ChainSpec CTFE.ChainLib CTFE.ChainSound CTFE.ChainComplete.
Import ListNotations.
Open Scope bool_scope.

(* ---------------------------------------------------------------- IsPrecertificate *)

Lemma is_precert_class c :
  (is_precertificate c = Some true <-> poison_class c = PCriticalNull)
  /\ (is_precertificate c = Some false <-> poison_class c = PAbsent)
  /\ (is_precertificate c = None <-> malformed_poison c).
Proof.
  unfold malformed_poison, is_precertificate, poison_class.
  destruct (find is_poison (c_exts c)) as [e|].
  - destruct (e_critical e), (e_null e); simpl; (split; [|split]); split; intros H;
      try discriminate; try reflexivity; try (destruct H; discriminate); auto.
  - (split; [|split]); split; intros H; try discriminate; try reflexivity. destruct H; discriminate.
Qed.

(* ---------------------------------------------------------------- verifyAddChain *)

Lemma validate_der_eq o ders raw : parse_all ders = Some raw -> validate_der o ders = validate o raw.
Proof. unfold validate_der. intros ->. reflexivity. Qed.
Lemma validate_der_parse o ders : parse_all ders = None -> validate_der o ders = Rejected RParse.
Proof. unfold validate_der. intros ->. reflexivity. Qed.
Lemma validate_der_accepted o ders p :
  validate_der o ders = Accepted p -> exists raw, parse_all ders = Some raw /\ validate o raw = Accepted p.
Proof. unfold validate_der. destruct (parse_all ders) as [raw|]; [eauto|discriminate]. Qed.

Lemma parse_all_some ders raw : parse_all ders = Some raw <-> ders = map Some raw.
Proof.
  revert raw. induction ders as [|[c|] t IH]; intros raw; simpl.
  - split; [intros [= <-]; reflexivity|]. destruct raw; [reflexivity|discriminate].
  - destruct (parse_all t) as [l|] eqn:E.
    + split.
      * intros [= <-]. simpl. f_equal. apply IH. reflexivity.
      * destruct raw as [|a raw]; [discriminate|]. simpl. intros [= -> Ht]. apply IH in Ht. congruence.
    + split; [discriminate|]. destruct raw as [|a raw]; [discriminate|]. simpl. intros [= -> Ht].
      apply IH in Ht. discriminate.
  - split; [discriminate|]. destruct raw; discriminate.
Qed.

Lemma accepted_head o raw p :
  wf_ids o raw -> validate o raw = Accepted p -> exists c0 rest extra, raw = c0 :: rest /\ p = c0 :: rest ++ extra.
Proof.
  intros Hwf Hv. destruct (validate_sound_lemma _ _ _ Hwf Hv) as [_ (extra & Hp & _)].
  destruct raw as [|c0 rest]; [apply validate_panics_iff in Hv || discriminate|].
  - exists c0, rest, extra. split; [reflexivity|exact Hp].
Qed.

(* the leaf kind must match the endpoint, and nothing else is added by verifyAddChain *)
Lemma verify_add_chain_spec o ders pre p :
  verify_add_chain o ders pre = Accepted p <->
  (validate_der o ders = Accepted p /\ exists leaf rest, p = leaf :: rest /\ is_precertificate leaf = Some pre).
Proof.
  unfold verify_add_chain. destruct (validate_der o ders) as [q|r|] eqn:Ev.
  - destruct q as [|leaf rest].
    + split; [discriminate|]. intros [[= <-] (l & r & E & _)]. discriminate.
    + destruct (is_precertificate leaf) as [b|] eqn:Ep.
      * destruct (Bool.eqb b pre) eqn:Eb.
        -- apply eqb_prop in Eb. subst b. split.
           ++ intros [= <-]. split; [reflexivity|]. exists leaf, rest. auto.
           ++ intros [[= <-] _]. reflexivity.
        -- split; [discriminate|]. intros [[= <-] (l & r & [= <- <-] & Hp)].
           rewrite Ep in Hp. inversion Hp; subst. rewrite eqb_reflx in Eb. discriminate.
      * split; [discriminate|]. intros [[= <-] (l & r & [= <- <-] & Hp)]. congruence.
  - split; [discriminate|]. intros [H _]. discriminate.
  - split; [discriminate|]. intros [H _]. discriminate.
Qed.

Lemma malformed_poison_rejected_lemma o c0 rest pre p :
  wf_ids o (c0 :: rest) -> malformed_poison c0 ->
  verify_add_chain o (map Some (c0 :: rest)) pre <> Accepted p.
Proof.
  intros Hwf Hm H. apply verify_add_chain_spec in H. destruct H as [Hv (leaf & r & -> & Hp)].
  rewrite (validate_der_eq o _ (c0 :: rest)) in Hv by (apply parse_all_some; reflexivity).
  destruct (accepted_head _ _ _ Hwf Hv) as (c & rs & extra & [= <- <-] & [= -> _]).
  apply (proj2 (proj2 (is_precert_class c0))) in Hm. congruence.
Qed.

(* ---------------------------------------------------------------- no panics *)

Lemma add_chain_http_no_panic o ders pre :
  (forall raw, parse_all ders = Some raw -> wf_ids o raw) -> add_chain_http o ders pre <> SPanic.
Proof.
  intros Hwf. unfold add_chain_http. destruct ders as [|d ders]; [discriminate|].
  unfold verify_add_chain. destruct (validate_der o (d :: ders)) as [q|r|] eqn:Ev.
  - destruct (validate_der_accepted _ _ _ Ev) as (raw & Hp & Hv).
    destruct (accepted_head _ _ _ (Hwf raw Hp) Hv) as (c & rs & extra & _ & ->).
    destruct (is_precertificate c) as [b|]; [|discriminate].
    destruct (Bool.eqb b pre); [|discriminate]. destruct (pre && _); discriminate.
  - discriminate.
  - exfalso. unfold validate_der in Ev. destruct (parse_all (d :: ders)) as [raw|] eqn:Hp; [|discriminate].
    apply validate_panics_iff in Ev. subst raw. apply parse_all_some in Hp. discriminate.
Qed.

(* ---------------------------------------------------------------- the fuel suffices *)

Section Fuel.
  Variables (roots ints : pool).

  Definition avail (cur : chain) : list cert := filter (fun p => negb (in_chain p cur)) ints.

  Lemma filter_length_lt {A} (g1 g2 : A -> bool) l x :
    (forall y, g1 y = true -> g2 y = true) -> In x l -> g2 x = true -> g1 x = false ->
    (length (filter g1 l) < length (filter g2 l))%nat.
  Proof.
    intros Himp. induction l as [|a l IH]; simpl; [intros []|].
    assert (Hle : (length (filter g1 l) <= length (filter g2 l))%nat).
    { clear IH. induction l as [|b l IH]; simpl; [lia|].
      destruct (g1 b) eqn:E1; [rewrite (Himp _ E1); simpl; lia|]. destruct (g2 b); simpl; lia. }
    intros [->|Hin] H2 H1.
    - rewrite H1, H2. simpl. lia.
    - specialize (IH Hin H2 H1). destruct (g1 a) eqn:E1; [rewrite (Himp _ E1); simpl; lia|].
      destruct (g2 a); simpl; lia.
  Qed.

  Lemma in_chain_app p cur x : in_chain p (cur ++ [x]) = in_chain p cur || same p x.
  Proof. unfold in_chain. rewrite existsb_app. simpl. rewrite orb_false_r. reflexivity. Qed.

  Lemma avail_shrinks cur x :
    In x ints -> in_chain x cur = false -> (length (avail (cur ++ [x])) < length (avail cur))%nat.
  Proof.
    intros Hin Hx. unfold avail. apply filter_length_lt with (x := x).
    - intros y. rewrite in_chain_app, negb_orb. intros H. apply andb_prop in H. tauto.
    - exact Hin.
    - rewrite Hx. reflexivity.
    - rewrite in_chain_app, same_refl, orb_true_r. reflexivity.
  Qed.

  Definition no_oof (a : list chain * bstate) : Prop := s_oof (snd a) = false.

  Lemma build_no_oof : forall f c cur s,
    (length (avail cur) < f)%nat -> s_oof s = false -> no_oof (build roots ints f c cur s).
  Proof.
    induction f as [|f IH]; intros c cur s Hlen Hs; [lia|]. simpl.
    apply fold_left_inv.
    - apply fold_left_inv; [exact Hs|]. intros [chs s'] x _ Ha. unfold no_oof in *. simpl in Ha.
      destruct (consider_root_state c cur chs s' x) as [chs' ->]. simpl. destruct (in_chain x cur); exact Ha.
    - intros [chs s'] x Hx Ha. unfold no_oof in *. simpl in Ha. unfold consider_int.
      destruct (in_chain x cur) eqn:E1; [exact Ha|].
      destruct (over_budget (bump s')); [exact Ha|].
      destruct (negb (signed_by c x)); [exact Ha|].
      destruct (negb (is_valid IntermediateCT c x)); [exact Ha|].
      destruct (assoc _ _); [exact Ha|].
      assert (Hr : no_oof (build roots ints f x (cur ++ [x]) (bump s'))).
      { apply IH; [|exact Ha]. apply fpp_incl in Hx. pose proof (avail_shrinks cur x Hx E1). lia. }
      destruct (build roots ints f x (cur ++ [x]) (bump s')) as [cc s2]. exact Hr.
  Qed.

  Lemma verify_fuel_suffices c0 :
    s_oof (snd (build roots ints (S (length ints)) c0 [c0] st0)) = false.
  Proof.
    apply build_no_oof; [|reflexivity]. unfold avail.
    assert (H : forall (g : cert -> bool) l, (length (filter g l) <= length l)%nat).
    { intros g l. induction l as [|a l IH]; simpl; [lia|]. destruct (g a); simpl; lia. }
    specialize (H (fun p => negb (in_chain p [c0])) ints). lia.
  Qed.
End Fuel.

Lemma validate_der_cases o ders :
  (parse_all ders = None -> validate_der o ders = Rejected RParse)
  /\ (forall raw, parse_all ders = Some raw -> validate_der o ders = validate o raw).
Proof. split; [apply validate_der_parse|apply validate_der_eq]. Qed.

Lemma filters_exact_lemma o c :
  (f_only_ca o c = false <-> (o_only_ca o = true -> c_is_ca c = true))
  /\ (f_expired o c = false <-> (o_reject_expired o = true -> (o_now o <= c_not_after c)%Z))
  /\ (f_unexpired o c = false <-> (o_reject_unexpired o = true -> (c_not_after c < o_now o)%Z))
  /\ (f_ext o c = false <-> (forall e, In e (c_exts c) -> ~ In (e_id e) (o_reject_ext o)))
  /\ (f_eku o c = false <-> (o_ekus o <> [] -> exists k, In k (c_ekus c) /\ In k (o_ekus o)))
  /\ (leaf_filters o c = None <-> filters_pass o c).
Proof.
  exact (conj (f_only_ca_false o c) (conj (f_expired_false o c) (conj (f_unexpired_false o c)
        (conj (f_ext_false o c) (conj (f_eku_false o c) (leaf_filters_none o c)))))).
Qed.
