// lockset lists, from /repo's CURRENT source (go/ast + go/types, no build needed), every read
// and write of the mutex-guarded struct fields named in property C17's anchors together with
// the mutexes that are *syntactically held* at that program point, and emits the list as a
// Coq term (coq/gen/Locks.v).  The obligation closed in Coq is `table_ok locks = true`
// (every pair of conflicting accesses shares a held mutex, at least one side exclusively),
// which the generic lemma of Submission/LockProofs.v turns into "no two adjacent conflicting
// accesses from different threads in any trace that respects mutex semantics".
//
// What "syntactically held" means here (all deliberately conservative):
//   - `B.M.Lock()` / `B.M.RLock()` as an expression statement acquires (B, M) exclusively /
//     shared; `B.M.Unlock()` / `B.M.RUnlock()` releases it; `defer B.M.Unlock()` keeps it
//     held to the end of the function.  After an if/for/switch/select the held set is the
//     intersection of the set before it and the sets at the end of its branches.
//   - a function literal starts with the EMPTY set (it may run on another goroutine), except
//     `defer func(){...}()`, which starts with the locks whose release is already deferred.
//   - an unexported method of a guarded struct that is only ever called directly
//     (`B.m(...)`) starts with the intersection of the locks held at its call sites
//     (a deferred call counts the locks whose release was deferred before it).
//   - an access is "init" (object not yet shared) when its base is a variable created in the
//     same function (`var x T`, `x := T{}`, `x := &T{}`, `x := new(T)`), or when it sits in an
//     unexported method all of whose call sites are init in that sense.
//   - a lock only counts for an access when it is taken on the same base expression
//     (`sub.mu` guards `sub.results`, not `other.results`).
//
// Anything the tool cannot resolve (a selector with a guarded field's name whose receiver
// type is unknown) is emitted as an access of struct "?" holding nothing, which makes the
// Coq obligation fail rather than pass silently.
//
// Usage: lockset -repo /repo -out coq/gen/Locks.v
package main

import (
	"bytes"
	"crypto/sha256"
	"flag"
	"fmt"
	"go/ast"
	"go/parser"
	"go/printer"
	"go/token"
	"go/types"
	"os"
	"path/filepath"
	"sort"
	"strings"
)

// guard: struct S of package dir Dir is protected by its mutex field Mutex; Fields lists the
// guarded fields ("*" = every other field of the struct, read off the declaration).
type guard struct {
	Dir, Struct, Mutex string
	Fields             []string
}

var guards = []guard{
	{"submission", "safeSubmissionState", "mu", []string{"*"}},
	{"submission", "Distributor", "mu", []string{"logClients", "logRoots", "rootPool", "rootDataFull", "usableLl", "pendingQualifiedLl"}},
	{"submission", "Proxy", "distMu", []string{"dist", "distCancel"}},
	{"submission", "LogListManager", "mu", []string{"latestLL", "previousLL"}},
	{"submission", "logListRefresherImpl", "updateMu", []string{"lastJSON"}},
	{"ctpolicy", "LogGroupInfo", "wMu", []string{"LogWeights"}},
}

var fset = token.NewFileSet()

func src(n ast.Node) string {
	var b bytes.Buffer
	printer.Fprint(&b, fset, n)
	return b.String()
}

func die(f string, a ...interface{}) {
	fmt.Fprintf(os.Stderr, "LOCKSET-ABORT "+f+"\n", a...)
	os.Exit(2)
}

type fakeImporter struct{}

func (fakeImporter) Import(path string) (*types.Package, error) {
	name := path
	if i := strings.LastIndex(path, "/"); i >= 0 {
		name = path[i+1:]
	}
	if name == "v2" { // k8s.io/klog/v2
		name = "klog"
	}
	p := types.NewPackage(path, name)
	p.MarkComplete()
	return p, nil
}

type lock struct {
	base, mutex string
	excl        bool
	deferred    bool // its release is deferred: held until the function returns
}

type lockset []lock

func (ls lockset) clone() lockset { return append(lockset{}, ls...) }

func (ls lockset) add(l lock) lockset {
	for i, o := range ls {
		if o.base == l.base && o.mutex == l.mutex && o.excl == l.excl {
			ls[i].deferred = ls[i].deferred || l.deferred
			return ls
		}
	}
	return append(ls, l)
}

func (ls lockset) remove(base, mutex string, excl bool) lockset {
	var out lockset
	done := false
	for _, o := range ls {
		if !done && o.base == base && o.mutex == mutex && o.excl == excl {
			done = true
			continue
		}
		out = append(out, o)
	}
	return out
}

func (ls lockset) markDeferred(base, mutex string, excl bool) {
	for i, o := range ls {
		if o.base == base && o.mutex == mutex && o.excl == excl {
			ls[i].deferred = true
		}
	}
}

func (ls lockset) onlyDeferred() lockset {
	var out lockset
	for _, o := range ls {
		if o.deferred {
			out = append(out, o)
		}
	}
	return out
}

func meet(a, b lockset) lockset {
	var out lockset
	for _, x := range a {
		for _, y := range b {
			if x.base == y.base && x.mutex == y.mutex && x.excl == y.excl {
				x.deferred = x.deferred && y.deferred
				out = append(out, x)
				break
			}
		}
	}
	return out
}

type access struct {
	strct, field string
	write        bool
	locks        []string // "mutex:Ex" / "mutex:Sh" held on the same base
	init         bool
	where        string
	pos          token.Position
}

// one analysed package
type pkgInfo struct {
	dir     string
	files   []*ast.File
	info    *types.Info
	guards  map[string]*guard          // struct name -> guard
	fields  map[string]map[string]bool // struct name -> guarded field set
	methods map[string]*ast.FuncDecl   // "Struct.method" -> decl
}

// summary of an unexported method: locks held on its receiver at every call site, and whether
// every call site is an init context.
type summary struct {
	known   bool   // at least one direct call site seen
	locks   []lock // base rewritten to the callee's receiver name
	init    bool
	escapes bool // referenced other than by a direct call: no assumptions
}

type analyser struct {
	p        *pkgInfo
	sums     map[string]*summary // "Struct.method"
	newSums  map[string]*summary
	accesses []access
	emit     bool
}

func namedStruct(t types.Type) string {
	for {
		switch u := t.(type) {
		case *types.Pointer:
			t = u.Elem()
			continue
		case *types.Named:
			return u.Obj().Name()
		}
		return ""
	}
}

func (a *analyser) typeOf(e ast.Expr) string {
	if tv, ok := a.p.info.Types[e]; ok && tv.Type != nil {
		return namedStruct(tv.Type)
	}
	if id, ok := e.(*ast.Ident); ok {
		if o := a.p.info.ObjectOf(id); o != nil && o.Type() != nil {
			return namedStruct(o.Type())
		}
	}
	return ""
}

// lockCall recognises B.M.Lock() etc. on a guarded struct's mutex.
func (a *analyser) lockCall(e ast.Expr) (base, mutex, op string, ok bool) {
	c, isCall := e.(*ast.CallExpr)
	if !isCall || len(c.Args) != 0 {
		return
	}
	s, isSel := c.Fun.(*ast.SelectorExpr)
	if !isSel {
		return
	}
	switch s.Sel.Name {
	case "Lock", "Unlock", "RLock", "RUnlock":
	default:
		return
	}
	m, isSel := s.X.(*ast.SelectorExpr)
	if !isSel {
		return
	}
	st := a.typeOf(m.X)
	g, has := a.p.guards[st]
	if !has || g.Mutex != m.Sel.Name {
		return
	}
	return src(m.X), m.Sel.Name, s.Sel.Name, true
}

type fnCtx struct {
	name     string
	recv     string          // receiver identifier ("" for functions)
	recvType string          // receiver struct
	locals   map[string]bool // identifiers created in this function (fresh objects)
	initAll  bool            // the whole function is an init context (from its summary)
}

func (a *analyser) collectLocals(body *ast.BlockStmt, ctx *fnCtx) {
	fresh := func(e ast.Expr) bool {
		switch v := e.(type) {
		case *ast.CompositeLit:
			return true
		case *ast.UnaryExpr:
			if v.Op == token.AND {
				_, ok := v.X.(*ast.CompositeLit)
				return ok
			}
		case *ast.CallExpr:
			if id, ok := v.Fun.(*ast.Ident); ok && id.Name == "new" {
				return true
			}
		}
		return false
	}
	ast.Inspect(body, func(n ast.Node) bool {
		switch s := n.(type) {
		case *ast.DeclStmt:
			if gd, ok := s.Decl.(*ast.GenDecl); ok && gd.Tok == token.VAR {
				for _, sp := range gd.Specs {
					vs := sp.(*ast.ValueSpec)
					for i, nm := range vs.Names {
						if len(vs.Values) == 0 || (i < len(vs.Values) && fresh(vs.Values[i])) {
							ctx.locals[nm.Name] = true
						}
					}
				}
			}
		case *ast.AssignStmt:
			if s.Tok == token.DEFINE && len(s.Lhs) == len(s.Rhs) {
				for i, l := range s.Lhs {
					if id, ok := l.(*ast.Ident); ok && fresh(s.Rhs[i]) {
						ctx.locals[id.Name] = true
					}
				}
			}
		}
		return true
	})
}

func (a *analyser) isInitBase(base ast.Expr, ctx *fnCtx) bool {
	for {
		switch v := base.(type) {
		case *ast.ParenExpr:
			base = v.X
			continue
		case *ast.UnaryExpr:
			if v.Op == token.AND {
				base = v.X
				continue
			}
		case *ast.StarExpr:
			base = v.X
			continue
		}
		break
	}
	id, ok := base.(*ast.Ident)
	if !ok {
		return false
	}
	if ctx.locals[id.Name] {
		return true
	}
	return ctx.initAll && id.Name == ctx.recv
}

func (a *analyser) record(sel *ast.SelectorExpr, write bool, held lockset, ctx *fnCtx) {
	if !a.emit {
		return
	}
	st := a.typeOf(sel.X)
	fs, guarded := a.p.fields[st]
	if !guarded || !fs[sel.Sel.Name] {
		if st == "" {
			// unresolved receiver: flag it if the name is a guarded field of some struct
			for _, f := range a.p.fields {
				if f[sel.Sel.Name] {
					if _, isPkg := a.p.info.Uses[identOf(sel.X)].(*types.PkgName); isPkg {
						return
					}
					pos := fset.Position(sel.Pos())
					a.accesses = append(a.accesses, access{strct: "?", field: sel.Sel.Name, write: true,
						where: fmt.Sprintf("%s:%d %s (unresolved receiver %s)", rel(pos.Filename), pos.Line, ctx.name, src(sel.X)), pos: pos})
					return
				}
			}
		}
		return
	}
	base := src(sel.X)
	var ls []string
	for _, l := range held {
		if l.base == base {
			m := "Sh"
			if l.excl {
				m = "Ex"
			}
			ls = append(ls, l.mutex+":"+m)
		}
	}
	sort.Strings(ls)
	pos := fset.Position(sel.Pos())
	a.accesses = append(a.accesses, access{strct: st, field: sel.Sel.Name, write: write, locks: ls,
		init: a.isInitBase(sel.X, ctx), where: fmt.Sprintf("%s:%d %s", rel(pos.Filename), pos.Line, ctx.name), pos: pos})
}

func identOf(e ast.Expr) *ast.Ident {
	id, _ := e.(*ast.Ident)
	return id
}

var repoRoot string

func rel(p string) string {
	r, err := filepath.Rel(repoRoot, p)
	if err != nil {
		return p
	}
	return r
}

// guardedSel returns the guarded-field selector at the root of an lvalue such as
// x.f, x.f[k], x.f[k].g, *x.f, (x.f).
func rootSel(e ast.Expr) *ast.SelectorExpr {
	for {
		switch v := e.(type) {
		case *ast.ParenExpr:
			e = v.X
		case *ast.IndexExpr:
			e = v.X
		case *ast.StarExpr:
			e = v.X
		case *ast.SliceExpr:
			e = v.X
		case *ast.SelectorExpr:
			return v
		default:
			return nil
		}
	}
}

// exprs walks an expression: every guarded selector in it is a read, except those passed in
// `writes` (already recorded).  Function literals are analysed with an empty lock set.
func (a *analyser) expr(e ast.Node, held lockset, ctx *fnCtx, writes map[*ast.SelectorExpr]bool) {
	if e == nil {
		return
	}
	ast.Inspect(e, func(n ast.Node) bool {
		switch v := n.(type) {
		case *ast.FuncLit:
			a.block(v.Body.List, lockset{}, ctx)
			return false
		case *ast.CallExpr:
			a.callSite(v, held, ctx, false)
			if id, ok := v.Fun.(*ast.Ident); ok && (id.Name == "delete" || id.Name == "close") && len(v.Args) > 0 {
				if s := rootSel(v.Args[0]); s != nil && id.Name == "delete" {
					a.record(s, true, held, ctx)
					writes[s] = true
				}
			}
		case *ast.UnaryExpr:
			if v.Op == token.AND {
				if s := rootSel(v.X); s != nil && !writes[s] {
					if _, isLit := v.X.(*ast.CompositeLit); !isLit {
						a.record(s, true, held, ctx) // address taken: treat as a write
						writes[s] = true
					}
				}
			}
		case *ast.SelectorExpr:
			if !writes[v] {
				a.record(v, false, held, ctx)
			}
		}
		return true
	})
}

// callSite feeds the interprocedural summaries: B.m(...) with B of a guarded struct type.
func (a *analyser) callSite(c *ast.CallExpr, held lockset, ctx *fnCtx, deferred bool) {
	s, ok := c.Fun.(*ast.SelectorExpr)
	if !ok {
		return
	}
	st := a.typeOf(s.X)
	if _, g := a.p.guards[st]; !g {
		return
	}
	key := st + "." + s.Sel.Name
	fd, isMethod := a.p.methods[key]
	if !isMethod || ast.IsExported(s.Sel.Name) || fd.Recv == nil || len(fd.Recv.List[0].Names) == 0 {
		return
	}
	calleeRecv := fd.Recv.List[0].Names[0].Name
	base := src(s.X)
	eff := held
	if deferred {
		eff = held.onlyDeferred()
	}
	var here []lock
	for _, l := range eff {
		if l.base == base {
			here = append(here, lock{base: calleeRecv, mutex: l.mutex, excl: l.excl, deferred: true})
		}
	}
	init := a.isInitBase(s.X, ctx)
	ns := a.newSums[key]
	if ns == nil {
		ns = &summary{}
		a.newSums[key] = ns
	}
	if !ns.known {
		ns.known, ns.locks, ns.init = true, here, init
	} else {
		ns.locks = meet(ns.locks, here)
		ns.init = ns.init && init
	}
}

func (a *analyser) block(stmts []ast.Stmt, held lockset, ctx *fnCtx) lockset {
	for _, s := range stmts {
		held = a.stmt(s, held, ctx)
	}
	return held
}

func (a *analyser) stmt(s ast.Stmt, held lockset, ctx *fnCtx) lockset {
	none := map[*ast.SelectorExpr]bool{}
	switch n := s.(type) {
	case nil:
		return held
	case *ast.ExprStmt:
		if base, mutex, op, ok := a.lockCall(n.X); ok {
			switch op {
			case "Lock":
				return held.clone().add(lock{base: base, mutex: mutex, excl: true})
			case "RLock":
				return held.clone().add(lock{base: base, mutex: mutex, excl: false})
			case "Unlock":
				return held.remove(base, mutex, true)
			case "RUnlock":
				return held.remove(base, mutex, false)
			}
		}
		a.expr(n.X, held, ctx, none)
	case *ast.DeferStmt:
		if base, mutex, op, ok := a.lockCall(n.Call); ok {
			h := held.clone()
			switch op {
			case "Unlock":
				h.markDeferred(base, mutex, true)
			case "RUnlock":
				h.markDeferred(base, mutex, false)
			}
			return h
		}
		if fl, ok := n.Call.Fun.(*ast.FuncLit); ok {
			for _, arg := range n.Call.Args {
				a.expr(arg, held, ctx, none)
			}
			a.block(fl.Body.List, held.onlyDeferred().clone(), ctx)
			return held
		}
		a.callSite(n.Call, held, ctx, true)
		for _, arg := range n.Call.Args {
			a.expr(arg, held, ctx, none)
		}
		if sel, ok := n.Call.Fun.(*ast.SelectorExpr); ok {
			a.expr(sel.X, held, ctx, none)
		}
	case *ast.GoStmt:
		if fl, ok := n.Call.Fun.(*ast.FuncLit); ok {
			for _, arg := range n.Call.Args {
				a.expr(arg, held, ctx, none)
			}
			a.block(fl.Body.List, lockset{}, ctx)
			return held
		}
		// `go B.m(...)`: runs without the caller's locks
		a.callSite(n.Call, lockset{}, ctx, false)
		for _, arg := range n.Call.Args {
			a.expr(arg, held, ctx, none)
		}
		if sel, ok := n.Call.Fun.(*ast.SelectorExpr); ok {
			a.expr(sel.X, held, ctx, none)
		}
	case *ast.AssignStmt:
		w := map[*ast.SelectorExpr]bool{}
		for _, l := range n.Lhs {
			if sel := rootSel(l); sel != nil {
				a.record(sel, true, held, ctx)
				w[sel] = true
			}
		}
		for _, l := range n.Lhs {
			a.expr(l, held, ctx, w) // index expressions etc. on the left are reads
		}
		for _, r := range n.Rhs {
			a.expr(r, held, ctx, none)
		}
	case *ast.IncDecStmt:
		w := map[*ast.SelectorExpr]bool{}
		if sel := rootSel(n.X); sel != nil {
			a.record(sel, true, held, ctx)
			w[sel] = true
		}
		a.expr(n.X, held, ctx, w)
	case *ast.SendStmt:
		a.expr(n.Chan, held, ctx, none)
		a.expr(n.Value, held, ctx, none)
	case *ast.ReturnStmt:
		for _, r := range n.Results {
			a.expr(r, held, ctx, none)
		}
	case *ast.DeclStmt:
		a.expr(n, held, ctx, none)
	case *ast.BlockStmt:
		return a.block(n.List, held, ctx)
	case *ast.LabeledStmt:
		return a.stmt(n.Stmt, held, ctx)
	case *ast.IfStmt:
		held = a.stmt(n.Init, held, ctx)
		a.expr(n.Cond, held, ctx, none)
		h1 := a.block(n.Body.List, held.clone(), ctx)
		h2 := held
		if n.Else != nil {
			h2 = a.stmt(n.Else, held.clone(), ctx)
		}
		return meet(held, meet(h1, h2))
	case *ast.ForStmt:
		held = a.stmt(n.Init, held, ctx)
		a.expr(n.Cond, held, ctx, none)
		h := a.block(n.Body.List, held.clone(), ctx)
		a.stmt(n.Post, h, ctx)
		return meet(held, h)
	case *ast.RangeStmt:
		w := map[*ast.SelectorExpr]bool{}
		if n.Tok == token.ASSIGN {
			for _, l := range []ast.Expr{n.Key, n.Value} {
				if l != nil {
					if sel := rootSel(l); sel != nil {
						a.record(sel, true, held, ctx)
						w[sel] = true
					}
				}
			}
		}
		a.expr(n.X, held, ctx, none)
		h := a.block(n.Body.List, held.clone(), ctx)
		return meet(held, h)
	case *ast.SwitchStmt:
		held = a.stmt(n.Init, held, ctx)
		a.expr(n.Tag, held, ctx, none)
		out := held
		for _, c := range n.Body.List {
			cc := c.(*ast.CaseClause)
			for _, e := range cc.List {
				a.expr(e, held, ctx, none)
			}
			out = meet(out, a.block(cc.Body, held.clone(), ctx))
		}
		return out
	case *ast.TypeSwitchStmt:
		held = a.stmt(n.Init, held, ctx)
		a.stmt(n.Assign, held, ctx)
		out := held
		for _, c := range n.Body.List {
			cc := c.(*ast.CaseClause)
			out = meet(out, a.block(cc.Body, held.clone(), ctx))
		}
		return out
	case *ast.SelectStmt:
		out := held
		for _, c := range n.Body.List {
			cc := c.(*ast.CommClause)
			h := a.stmt(cc.Comm, held.clone(), ctx)
			out = meet(out, a.block(cc.Body, h, ctx))
		}
		return out
	case *ast.BranchStmt, *ast.EmptyStmt:
	default:
		die("unsupported statement %T at %s", s, fset.Position(s.Pos()))
	}
	return held
}

func (a *analyser) function(fd *ast.FuncDecl) {
	if fd.Body == nil {
		return
	}
	ctx := &fnCtx{name: fd.Name.Name, locals: map[string]bool{}}
	entry := lockset{}
	if fd.Recv != nil && len(fd.Recv.List) > 0 {
		ctx.recvType = strings.TrimPrefix(src(fd.Recv.List[0].Type), "*")
		ctx.name = ctx.recvType + "." + fd.Name.Name
		if len(fd.Recv.List[0].Names) > 0 {
			ctx.recv = fd.Recv.List[0].Names[0].Name
		}
		if sm := a.sums[ctx.recvType+"."+fd.Name.Name]; sm != nil && sm.known && !sm.escapes {
			for _, l := range sm.locks {
				entry = append(entry, l)
			}
			ctx.initAll = sm.init
		}
	}
	a.collectLocals(fd.Body, ctx)
	a.block(fd.Body.List, entry, ctx)
}

func loadPkg(repo string, dir string, gs []guard) *pkgInfo {
	full := filepath.Join(repo, dir)
	pkgs, err := parser.ParseDir(fset, full, func(fi os.FileInfo) bool {
		return !strings.HasSuffix(fi.Name(), "_test.go")
	}, parser.ParseComments)
	if err != nil {
		die("parse %s: %v", full, err)
	}
	p := &pkgInfo{dir: dir, guards: map[string]*guard{}, fields: map[string]map[string]bool{}, methods: map[string]*ast.FuncDecl{}}
	for name, pk := range pkgs {
		if strings.HasSuffix(name, "_test") {
			continue
		}
		var names []string
		for n := range pk.Files {
			names = append(names, n)
		}
		sort.Strings(names)
		for _, n := range names {
			p.files = append(p.files, pk.Files[n])
		}
	}
	p.info = &types.Info{Types: map[ast.Expr]types.TypeAndValue{}, Defs: map[*ast.Ident]types.Object{},
		Uses: map[*ast.Ident]types.Object{}, Selections: map[*ast.SelectorExpr]*types.Selection{}}
	conf := types.Config{Importer: fakeImporter{}, Error: func(error) {}, FakeImportC: true}
	conf.Check(dir, fset, p.files, p.info) // errors about imported names are expected and ignored
	// struct declarations
	decl := map[string]*ast.StructType{}
	for _, f := range p.files {
		for _, d := range f.Decls {
			switch v := d.(type) {
			case *ast.GenDecl:
				for _, sp := range v.Specs {
					if ts, ok := sp.(*ast.TypeSpec); ok {
						if st, ok := ts.Type.(*ast.StructType); ok {
							decl[ts.Name.Name] = st
						}
					}
				}
			case *ast.FuncDecl:
				if v.Recv != nil && len(v.Recv.List) > 0 {
					p.methods[strings.TrimPrefix(src(v.Recv.List[0].Type), "*")+"."+v.Name.Name] = v
				}
			}
		}
	}
	for i := range gs {
		g := &gs[i]
		st, ok := decl[g.Struct]
		if !ok {
			die("struct %s.%s not found", dir, g.Struct)
		}
		have := map[string]bool{}
		for _, f := range st.Fields.List {
			for _, n := range f.Names {
				have[n.Name] = true
			}
		}
		if !have[g.Mutex] {
			die("struct %s.%s has no mutex field %s", dir, g.Struct, g.Mutex)
		}
		fs := map[string]bool{}
		for _, f := range g.Fields {
			if f == "*" {
				for n := range have {
					if n != g.Mutex {
						fs[n] = true
					}
				}
				continue
			}
			if !have[f] {
				die("struct %s.%s has no field %s", dir, g.Struct, f)
			}
			fs[f] = true
		}
		p.guards[g.Struct] = g
		p.fields[g.Struct] = fs
	}
	return p
}

func analyse(p *pkgInfo) []access {
	a := &analyser{p: p, sums: map[string]*summary{}}
	// methods referenced other than by a direct call get no summary
	escapes := map[string]bool{}
	for _, f := range p.files {
		calls := map[*ast.SelectorExpr]bool{}
		ast.Inspect(f, func(n ast.Node) bool {
			if c, ok := n.(*ast.CallExpr); ok {
				if s, ok := c.Fun.(*ast.SelectorExpr); ok {
					calls[s] = true
				}
			}
			return true
		})
		ast.Inspect(f, func(n ast.Node) bool {
			if s, ok := n.(*ast.SelectorExpr); ok && !calls[s] {
				if sel, ok := p.info.Selections[s]; ok && sel.Kind() == types.MethodVal {
					escapes[namedStruct(sel.Recv())+"."+s.Sel.Name] = true
				}
			}
			return true
		})
	}
	// fixpoint over the call-site summaries (they only shrink)
	for round := 0; round < 10; round++ {
		a.newSums = map[string]*summary{}
		a.emit = false
		for _, f := range p.files {
			for _, d := range f.Decls {
				if fd, ok := d.(*ast.FuncDecl); ok {
					a.function(fd)
				}
			}
		}
		for k, s := range a.newSums {
			s.escapes = escapes[k]
		}
		same := len(a.newSums) == len(a.sums)
		for k, s := range a.newSums {
			o := a.sums[k]
			if o == nil || fmt.Sprint(*o) != fmt.Sprint(*s) {
				same = false
			}
		}
		a.sums = a.newSums
		if same {
			break
		}
	}
	a.emit = true
	a.newSums = map[string]*summary{}
	for _, f := range p.files {
		for _, d := range f.Decls {
			if fd, ok := d.(*ast.FuncDecl); ok {
				a.function(fd)
			}
		}
	}
	return a.accesses
}

func coqStr(s string) string { return "\"" + strings.ReplaceAll(s, "\"", "\"\"") + "\"" }

func main() {
	repo := flag.String("repo", "/repo", "repository root")
	out := flag.String("out", "", "output .v file")
	flag.Parse()
	repoRoot = *repo
	byDir := map[string][]guard{}
	var dirs []string
	for _, g := range guards {
		if _, ok := byDir[g.Dir]; !ok {
			dirs = append(dirs, g.Dir)
		}
		byDir[g.Dir] = append(byDir[g.Dir], g)
	}
	var all []access
	var gl []string
	for _, d := range dirs {
		p := loadPkg(*repo, d, byDir[d])
		acc := analyse(p)
		sort.SliceStable(acc, func(i, j int) bool {
			if acc[i].pos.Filename != acc[j].pos.Filename {
				return acc[i].pos.Filename < acc[j].pos.Filename
			}
			if acc[i].pos.Line != acc[j].pos.Line {
				return acc[i].pos.Line < acc[j].pos.Line
			}
			return acc[i].pos.Column < acc[j].pos.Column
		})
		all = append(all, acc...)
		var sn []string
		for s := range p.fields {
			sn = append(sn, s)
		}
		sort.Strings(sn)
		for _, s := range sn {
			var fs []string
			for f := range p.fields[s] {
				fs = append(fs, coqStr(f))
			}
			sort.Strings(fs)
			gl = append(gl, fmt.Sprintf("  (%s, %s, [%s])", coqStr(s), coqStr(p.guards[s].Mutex), strings.Join(fs, "; ")))
		}
	}
	var b strings.Builder
	b.WriteString("(* GENERATED by lockset from /repo's working tree; do not edit.\n")
	b.WriteString("   One entry per syntactic read/write of a mutex-guarded field named in C17's anchors,\n")
	b.WriteString("   with the mutexes (of the same object) syntactically held at that point. *)\n")
	b.WriteString("From Coq Require Import List String.\nFrom V Require Import Submission.LockLib.\nImport ListNotations.\nOpen Scope string_scope.\n\n")
	b.WriteString("(* struct, its mutex, the guarded fields *)\nDefinition guarded : list (string * string * list string) := [\n" + strings.Join(gl, ";\n") + "\n].\n\n")
	b.WriteString("Definition locks : list access := [\n")
	for i, x := range all {
		var ls []string
		for _, l := range x.locks {
			parts := strings.Split(l, ":")
			ls = append(ls, "("+coqStr(parts[0])+", "+parts[1]+")")
		}
		sep := ";"
		if i == len(all)-1 {
			sep = ""
		}
		kind := "false"
		if x.write {
			kind = "true"
		}
		init := "false"
		if x.init {
			init = "true"
		}
		fmt.Fprintf(&b, "  mkAccess %s %s %s [%s] %s %s%s\n", coqStr(x.strct), coqStr(x.field), kind, strings.Join(ls, "; "), init, coqStr(x.where), sep)
	}
	b.WriteString("].\n")
	content := b.String()
	sum := sha256.Sum256([]byte(content))
	content += fmt.Sprintf("(* sha256 %x *)\n", sum[:8])
	if *out == "" {
		fmt.Print(content)
		return
	}
	old, _ := os.ReadFile(*out)
	if string(old) != content {
		if err := os.WriteFile(*out, []byte(content), 0o644); err != nil {
			die("%v", err)
		}
		fmt.Printf("lockset: wrote %s (%d accesses)\n", *out, len(all))
	}
}
